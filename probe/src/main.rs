// cgprobe: library-level observation point for the /verif monitors.
//
// Reads framed requests on stdin:
//     <id> <shell> <want,want,...> <nbytes>\n<nbytes of grammar text>
// and prints one JSON object per request on stdout (one line).  It calls the
// complgen pipeline in the same order and with the same calls as
// src/main.rs::aot and contains no checking logic at all.
//
// wants: parse valid dfa subraw script dot repeat=<n>

use std::fmt::Write as _;
use std::io::{BufRead, Read, Write};
use std::panic::{AssertUnwindSafe, catch_unwind};

use complgen::check::ValidGrammar;
use complgen::dfa::{DFA, Inp};
use complgen::parse::{Expr, ExprId, Grammar, HumanSpan, Shell, Statement};
use complgen::regex::{Regex, RegexInput, RegexInternPool};
use complgen::{Error, bash, fish, pwsh, zsh};

fn jstr(out: &mut String, s: &str) {
    out.push('"');
    for c in s.chars() {
        match c {
            '"' => out.push_str("\\\""),
            '\\' => out.push_str("\\\\"),
            '\n' => out.push_str("\\n"),
            '\r' => out.push_str("\\r"),
            '\t' => out.push_str("\\t"),
            c if (c as u32) < 0x20 || c == '\u{7f}' => {
                let _ = write!(out, "\\u{:04x}", c as u32);
            }
            c => out.push(c),
        }
    }
    out.push('"');
}

fn jspan(out: &mut String, s: &HumanSpan) {
    let _ = write!(out, "[{},{},{}]", s.line, s.column_start, s.column_end);
}

fn jids(out: &mut String, ids: &[ExprId]) {
    out.push('[');
    for (i, id) in ids.iter().enumerate() {
        if i > 0 {
            out.push(',');
        }
        let _ = write!(out, "{}", id.0);
    }
    out.push(']');
}

fn jexpr(out: &mut String, e: &Expr) {
    match e {
        Expr::Terminal {
            term,
            descr,
            fallback,
            span,
        } => {
            out.push_str("{\"k\":\"T\",\"t\":");
            jstr(out, term);
            out.push_str(",\"d\":");
            match descr {
                Some(d) => jstr(out, d),
                None => out.push_str("null"),
            }
            let _ = write!(out, ",\"fb\":{},\"sp\":", fallback);
            jspan(out, span);
            out.push('}');
        }
        Expr::NontermRef {
            nonterm,
            fallback,
            span,
        } => {
            out.push_str("{\"k\":\"N\",\"n\":");
            jstr(out, nonterm);
            let _ = write!(out, ",\"fb\":{},\"sp\":", fallback);
            jspan(out, span);
            out.push('}');
        }
        Expr::Command {
            cmd,
            zsh_compadd,
            fallback,
            span,
        } => {
            out.push_str("{\"k\":\"C\",\"c\":");
            jstr(out, cmd);
            let _ = write!(out, ",\"ca\":{},\"fb\":{},\"sp\":", zsh_compadd, fallback);
            jspan(out, span);
            out.push('}');
        }
        Expr::Sequence { children, span } => {
            out.push_str("{\"k\":\"Seq\",\"ch\":");
            jids(out, children);
            out.push_str(",\"sp\":");
            jspan(out, span);
            out.push('}');
        }
        Expr::Alternative { children, span } => {
            out.push_str("{\"k\":\"Alt\",\"ch\":");
            jids(out, children);
            out.push_str(",\"sp\":");
            jspan(out, span);
            out.push('}');
        }
        Expr::Fallback { children, span } => {
            out.push_str("{\"k\":\"Fb\",\"ch\":");
            jids(out, children);
            out.push_str(",\"sp\":");
            jspan(out, span);
            out.push('}');
        }
        Expr::Optional { child, span } => {
            let _ = write!(out, "{{\"k\":\"Opt\",\"c\":{},\"sp\":", child.0);
            jspan(out, span);
            out.push('}');
        }
        Expr::Many1 { child, span } => {
            let _ = write!(out, "{{\"k\":\"Many\",\"c\":{},\"sp\":", child.0);
            jspan(out, span);
            out.push('}');
        }
        Expr::DistributiveDescription { child, descr, span } => {
            let _ = write!(out, "{{\"k\":\"DD\",\"c\":{},\"d\":", child.0);
            jstr(out, descr);
            out.push_str(",\"sp\":");
            jspan(out, span);
            out.push('}');
        }
        Expr::Subword {
            root_id,
            fallback,
            span,
        } => {
            let _ = write!(
                out,
                "{{\"k\":\"Sub\",\"c\":{},\"fb\":{},\"sp\":",
                root_id.0, fallback
            );
            jspan(out, span);
            out.push('}');
        }
    }
}

fn jarena(out: &mut String, arena: &[Expr]) {
    out.push('[');
    for (i, e) in arena.iter().enumerate() {
        if i > 0 {
            out.push(',');
        }
        jexpr(out, e);
    }
    out.push(']');
}

fn jspans(out: &mut String, spans: &[HumanSpan]) {
    out.push('[');
    for (i, s) in spans.iter().enumerate() {
        if i > 0 {
            out.push(',');
        }
        jspan(out, s);
    }
    out.push(']');
}

fn jinp(out: &mut String, inp: &Inp) {
    match inp {
        Inp::Literal {
            literal,
            description,
            fallback_level,
        } => {
            out.push_str("{\"k\":\"L\",\"t\":");
            jstr(out, literal);
            out.push_str(",\"d\":");
            match description {
                Some(d) => jstr(out, d),
                None => out.push_str("null"),
            }
            let _ = write!(out, ",\"fb\":{}}}", fallback_level);
        }
        Inp::Subword {
            subdfa,
            fallback_level,
        } => {
            let _ = write!(
                out,
                "{{\"k\":\"S\",\"sub\":{},\"fb\":{}}}",
                subdfa.verif_index(),
                fallback_level
            );
        }
        Inp::Command {
            cmd,
            fallback_level,
        } => {
            out.push_str("{\"k\":\"C\",\"c\":");
            jstr(out, cmd);
            let _ = write!(out, ",\"fb\":{}}}", fallback_level);
        }
        Inp::Compadd {
            cmd,
            fallback_level,
        } => {
            out.push_str("{\"k\":\"A\",\"c\":");
            jstr(out, cmd);
            let _ = write!(out, ",\"fb\":{}}}", fallback_level);
        }
        Inp::Star => out.push_str("{\"k\":\"*\"}"),
    }
}

fn jerror(out: &mut String, e: &Error) {
    out.push_str("{\"variant\":");
    match e {
        Error::ParseError(s) => {
            out.push_str("\"ParseError\",\"spans\":");
            jspans(out, &[*s]);
        }
        Error::MissingCallVariants => out.push_str("\"MissingCallVariants\",\"spans\":[]"),
        Error::InvalidCommandName(s) => {
            out.push_str("\"InvalidCommandName\",\"spans\":");
            jspans(out, &[*s]);
        }
        Error::VaryingCommandNames(ss) => {
            out.push_str("\"VaryingCommandNames\",\"spans\":");
            jspans(out, ss);
        }
        Error::NonterminalDefinitionsCycle(ss) => {
            out.push_str("\"NonterminalDefinitionsCycle\",\"spans\":");
            jspans(out, ss);
        }
        Error::DuplicateNonterminalDefinition(a, b) => {
            out.push_str("\"DuplicateNonterminalDefinition\",\"spans\":");
            jspans(out, &[*a, *b]);
        }
        Error::UnknownShell(s) => {
            out.push_str("\"UnknownShell\",\"spans\":");
            jspans(out, &[*s]);
        }
        Error::NonCommandSpecialization(s) => {
            out.push_str("\"NonCommandSpecialization\",\"spans\":");
            jspans(out, &[*s]);
        }
        Error::UnboundedMatchable(a, b) => {
            out.push_str("\"UnboundedMatchable\",\"spans\":");
            jspans(out, &[*a, *b]);
        }
        Error::ConflictingDescriptions(path, lit, l, r) => {
            out.push_str("\"ConflictingDescriptions\",\"spans\":[],\"path\":[");
            for (i, p) in path.iter().enumerate() {
                if i > 0 {
                    out.push(',');
                }
                if let Inp::Subword { .. } = p {
                    out.push_str("{\"k\":\"S\"}");
                } else {
                    jinp(out, p);
                }
            }
            out.push_str("],\"literal\":");
            jstr(out, lit);
            out.push_str(",\"left\":");
            jstr(out, l);
            out.push_str(",\"right\":");
            jstr(out, r);
        }
        Error::SubwordSpaces(a, b, trace) => {
            out.push_str("\"SubwordSpaces\",\"spans\":");
            jspans(out, &[*a, *b]);
            out.push_str(",\"trace\":");
            jspans(out, trace);
        }
        Error::AmbiguousDFA(_, _) => out.push_str("\"AmbiguousDFA\",\"spans\":[]"),
        Error::FromUtf8Error(_) => out.push_str("\"FromUtf8Error\",\"spans\":[]"),
        Error::FmtError(_) => out.push_str("\"FmtError\",\"spans\":[]"),
        Error::IoError(_) => out.push_str("\"IoError\",\"spans\":[]"),
    }
    out.push('}');
}

// One automaton, without its nested automata (those are collected by the caller).
fn jdfa_flat(out: &mut String, dfa: &DFA, subs: &mut Vec<usize>) {
    let _ = write!(out, "{{\"start\":{},\"acc\":[", dfa.starting_state);
    for (i, s) in dfa.accepting_states.iter().enumerate() {
        if i > 0 {
            out.push(',');
        }
        let _ = write!(out, "{}", s);
    }
    out.push_str("],\"tr\":[");
    let mut first = true;
    for (from, tos) in &dfa.transitions {
        for (inp, to) in tos {
            if !first {
                out.push(',');
            }
            first = false;
            let _ = write!(out, "[{},{},{}]", from, inp.verif_index(), to);
            if let Inp::Subword { subdfa, .. } = dfa.verif_input(*inp) {
                let ix = subdfa.verif_index();
                if !subs.contains(&ix) {
                    subs.push(ix);
                }
            }
        }
    }
    // states that have an (empty) entry in the transition map
    out.push_str("],\"keys\":[");
    for (i, from) in dfa.transitions.keys().enumerate() {
        if i > 0 {
            out.push(',');
        }
        let _ = write!(out, "{}", from);
    }
    out.push_str("],\"inputs\":[");
    for (i, inp) in dfa.verif_inputs().enumerate() {
        if i > 0 {
            out.push(',');
        }
        jinp(out, inp);
    }
    out.push_str("]}");
}

// A DFA with all nested automata, as {"main":..., "subs": {"<id>": ...}}
fn jdfa(out: &mut String, dfa: &DFA) {
    let mut subs: Vec<usize> = Vec::new();
    out.push_str("{\"main\":");
    jdfa_flat(out, dfa, &mut subs);
    out.push_str(",\"subs\":{");
    // nested automata are addressed through Inp::Subword of the main automaton
    let mut emitted: Vec<usize> = Vec::new();
    let mut first = true;
    for (_, tos) in &dfa.transitions {
        for (inp, _) in tos {
            if let Inp::Subword { subdfa, .. } = dfa.verif_input(*inp) {
                let ix = subdfa.verif_index();
                if emitted.contains(&ix) {
                    continue;
                }
                emitted.push(ix);
                if !first {
                    out.push(',');
                }
                first = false;
                let _ = write!(out, "\"{}\":", ix);
                let mut ignore = Vec::new();
                jdfa_flat(out, dfa.verif_subdfa(*subdfa), &mut ignore);
            }
        }
    }
    out.push_str("}}");
}

fn jregex_inputs(out: &mut String, regex: &Regex) {
    out.push('[');
    for (i, inp) in regex.input_from_position.iter().enumerate() {
        if i > 0 {
            out.push(',');
        }
        match inp {
            RegexInput::Literal {
                literal,
                description,
                fallback_level,
                span,
            } => {
                out.push_str("{\"k\":\"L\",\"t\":");
                jstr(out, literal);
                out.push_str(",\"d\":");
                match description {
                    Some(d) => jstr(out, d),
                    None => out.push_str("null"),
                }
                let _ = write!(out, ",\"fb\":{},\"sp\":", fallback_level);
                jspan(out, span);
                out.push('}');
            }
            RegexInput::Nonterminal {
                nonterm,
                fallback_level,
                span,
            } => {
                out.push_str("{\"k\":\"N\",\"n\":");
                jstr(out, nonterm);
                let _ = write!(out, ",\"fb\":{},\"sp\":", fallback_level);
                jspan(out, span);
                out.push('}');
            }
            RegexInput::Command {
                cmd,
                zsh_compadd,
                fallback_level,
                span,
            } => {
                out.push_str("{\"k\":\"C\",\"c\":");
                jstr(out, cmd);
                let _ = write!(out, ",\"ca\":{},\"fb\":{},\"sp\":", zsh_compadd, fallback_level);
                jspan(out, span);
                out.push('}');
            }
            RegexInput::Subword {
                subword_regex_id,
                fallback_level,
                span,
            } => {
                let _ = write!(
                    out,
                    "{{\"k\":\"S\",\"re\":{},\"fb\":{},\"sp\":",
                    subword_regex_id.verif_index(),
                    fallback_level
                );
                jspan(out, span);
                out.push('}');
            }
        }
    }
    out.push(']');
}

fn emit_script(shell: Shell, command: &str, dfa: &DFA) -> Result<String, String> {
    let mut buf: Vec<u8> = Vec::new();
    let r = match shell {
        Shell::Bash => bash::write_completion_script(&mut buf, command, dfa),
        Shell::Fish => fish::write_completion_script(&mut buf, command, dfa),
        Shell::Zsh => zsh::write_completion_script(&mut buf, command, dfa),
        Shell::Pwsh => pwsh::write_completion_script(&mut buf, command, dfa),
    };
    match r {
        Ok(()) => Ok(String::from_utf8_lossy(&buf).into_owned()),
        Err(e) => Err(format!("{e}")),
    }
}

fn array_start(shell: Shell) -> u32 {
    match shell {
        Shell::Bash => bash::ARRAY_START,
        Shell::Fish => fish::ARRAY_START,
        Shell::Zsh => zsh::ARRAY_START,
        Shell::Pwsh => pwsh::ARRAY_START,
    }
}

struct Wants {
    parse: bool,
    valid: bool,
    dfa: bool,
    subraw: bool,
    script: bool,
    dot: bool,
    regex: bool,
    repeat: usize,
}

// The pipeline, same order and calls as src/main.rs::aot.  Appends JSON members
// (each preceded by a comma) to `out`.
fn pipeline(text: &str, shell: Shell, w: &Wants, out: &mut String) {
    let grammar = match Grammar::parse(text) {
        Ok(g) => g,
        Err(e) => {
            out.push_str(",\"stage\":\"parse\",\"error\":");
            jerror(out, &e);
            return;
        }
    };
    if w.parse {
        out.push_str(",\"parse\":{\"arena\":");
        jarena(out, &grammar.arena);
        out.push_str(",\"stmts\":[");
        for (i, st) in grammar.statements.iter().enumerate() {
            if i > 0 {
                out.push(',');
            }
            match st {
                Statement::CallVariant {
                    name,
                    name_span,
                    expr,
                } => {
                    out.push_str("{\"k\":\"call\",\"name\":");
                    jstr(out, name);
                    out.push_str(",\"sp\":");
                    jspan(out, name_span);
                    let _ = write!(out, ",\"e\":{}}}", expr.0);
                }
                Statement::NonterminalDefinition(defn) => {
                    let (name, span, shell, rhs) = defn.verif_parts();
                    out.push_str("{\"k\":\"def\",\"name\":");
                    jstr(out, &name);
                    out.push_str(",\"sp\":");
                    jspan(out, &span);
                    out.push_str(",\"shell\":");
                    match shell {
                        Some((s, sp)) => {
                            out.push('[');
                            jstr(out, &s);
                            out.push(',');
                            jspan(out, &sp);
                            out.push(']');
                        }
                        None => out.push_str("null"),
                    }
                    let _ = write!(out, ",\"e\":{}}}", rhs.0);
                }
            }
        }
        out.push_str("]}");
    }
    if !(w.valid || w.dfa || w.subraw || w.script || w.dot || w.regex) {
        out.push_str(",\"stage\":\"done\"");
        return;
    }

    let mut validated = match ValidGrammar::from_grammar(grammar, shell) {
        Ok(v) => v,
        Err(e) => {
            out.push_str(",\"stage\":\"valid\",\"error\":");
            jerror(out, &e);
            return;
        }
    };

    let mut subword_regexes = RegexInternPool::default();
    let regex = match Regex::from_valid_grammar(&validated, &mut subword_regexes) {
        Ok(r) => r,
        Err(e) => {
            out.push_str(",\"stage\":\"regex\",\"error\":");
            jerror(out, &e);
            return;
        }
    };

    if w.valid {
        out.push_str(",\"valid\":{\"command\":");
        jstr(out, &validated.command);
        let _ = write!(out, ",\"root\":{},\"arena\":", validated.expr.0);
        jarena(out, &validated.arena);
        for (key, map) in [
            ("undefined", &validated.undefined_nonterminals),
            ("unused", &validated.unused_nonterminals),
            ("unused_spec", &validated.unused_specializations),
        ] {
            let _ = write!(out, ",\"{}\":{{", key);
            let mut items: Vec<(&str, &HumanSpan)> =
                map.iter().map(|(k, v)| (k.as_str(), v)).collect();
            items.sort();
            for (i, (k, v)) in items.iter().enumerate() {
                if i > 0 {
                    out.push(',');
                }
                jstr(out, k);
                out.push(':');
                jspan(out, v);
            }
            out.push('}');
        }
        out.push('}');
    }
    // main.rs removes `_` before printing warnings; nothing downstream reads the maps.
    let _ = &mut validated;

    if w.regex {
        out.push_str(",\"regex\":{\"inputs\":");
        jregex_inputs(out, &regex);
        out.push_str(",\"pool\":[");
        for (i, r) in subword_regexes.verif_regexes().enumerate() {
            if i > 0 {
                out.push(',');
            }
            jregex_inputs(out, r);
        }
        out.push_str("]}");
    }

    let mut regex_dot: Option<String> = None;
    if w.dot {
        let mut buf: Vec<u8> = Vec::new();
        match regex.to_dot(&mut buf, &subword_regexes) {
            Ok(()) => regex_dot = Some(String::from_utf8_lossy(&buf).into_owned()),
            Err(e) => {
                out.push_str(",\"stage\":\"regexdot\",\"error\":{\"variant\":\"Io\",\"msg\":");
                jstr(out, &format!("{e}"));
                out.push_str("}");
                return;
            }
        }
    }

    if w.subraw {
        out.push_str(",\"subraw\":[");
        let regs: Vec<Regex> = subword_regexes.verif_regexes().cloned().collect();
        for (i, r) in regs.into_iter().enumerate() {
            if i > 0 {
                out.push(',');
            }
            match DFA::from_regex_raw(r, &subword_regexes) {
                Ok(raw) => {
                    out.push_str("{\"raw\":");
                    jdfa(out, &raw);
                    let min = raw.minimize();
                    out.push_str(",\"min\":");
                    jdfa(out, &min);
                    out.push('}');
                }
                Err(e) => {
                    out.push_str("{\"error\":");
                    jerror(out, &e);
                    out.push('}');
                }
            }
        }
        out.push(']');
    }

    let dfa = match DFA::from_regex_raw(regex, &subword_regexes) {
        Ok(d) => d,
        Err(e) => {
            out.push_str(",\"stage\":\"dfa\",\"error\":");
            jerror(out, &e);
            return;
        }
    };
    if w.dfa {
        out.push_str(",\"dfa_raw\":");
        jdfa(out, &dfa);
    }
    let dfa = dfa.minimize();
    if w.dfa {
        out.push_str(",\"dfa_min\":");
        jdfa(out, &dfa);
    }

    if w.dot {
        let mut buf: Vec<u8> = Vec::new();
        let r = dfa.to_dot(&mut buf, array_start(shell));
        out.push_str(",\"dot\":{\"regex\":");
        jstr(out, regex_dot.as_deref().unwrap_or(""));
        match r {
            Ok(()) => {
                out.push_str(",\"dfa\":");
                jstr(out, &String::from_utf8_lossy(&buf));
            }
            Err(e) => {
                out.push_str(",\"dfa_error\":");
                jstr(out, &format!("{e}"));
            }
        }
        out.push('}');
    }

    if let Err(e) = dfa.check_ambiguity_best_effort() {
        out.push_str(",\"stage\":\"ambiguity\",\"error\":");
        jerror(out, &e);
        return;
    }

    if w.script {
        match emit_script(shell, &validated.command, &dfa) {
            Ok(s) => {
                out.push_str(",\"script\":");
                jstr(out, &s);
            }
            Err(e) => {
                out.push_str(",\"script_error\":");
                jstr(out, &e);
            }
        }
    }
    out.push_str(",\"stage\":\"done\"");
}

fn parse_shell(s: &str) -> Option<Shell> {
    match s {
        "bash" => Some(Shell::Bash),
        "fish" => Some(Shell::Fish),
        "zsh" => Some(Shell::Zsh),
        "pwsh" => Some(Shell::Pwsh),
        _ => None,
    }
}

fn main() {
    std::panic::set_hook(Box::new(|_| {}));
    let stdin = std::io::stdin();
    let mut stdin = stdin.lock();
    let stdout = std::io::stdout();
    let mut stdout = std::io::BufWriter::new(stdout.lock());
    loop {
        let mut header = String::new();
        match stdin.read_line(&mut header) {
            Ok(0) => break,
            Ok(_) => {}
            Err(_) => break,
        }
        let header = header.trim_end_matches('\n');
        if header.is_empty() {
            continue;
        }
        let parts: Vec<&str> = header.split(' ').collect();
        if parts.len() != 4 {
            let _ = writeln!(stdout, "{{\"id\":null,\"proto_error\":\"bad header\"}}");
            let _ = stdout.flush();
            break;
        }
        let id = parts[0].to_string();
        let shell = parse_shell(parts[1]);
        let wants_s = parts[2];
        let n: usize = parts[3].parse().unwrap_or(0);
        let mut buf = vec![0u8; n];
        if stdin.read_exact(&mut buf).is_err() {
            break;
        }
        let mut w = Wants {
            parse: false,
            valid: false,
            dfa: false,
            subraw: false,
            script: false,
            dot: false,
            regex: false,
            repeat: 0,
        };
        for want in wants_s.split(',') {
            match want {
                "parse" => w.parse = true,
                "valid" => w.valid = true,
                "dfa" => w.dfa = true,
                "subraw" => w.subraw = true,
                "script" => w.script = true,
                "dot" => w.dot = true,
                "regex" => w.regex = true,
                x if x.starts_with("repeat=") => w.repeat = x[7..].parse().unwrap_or(0),
                _ => {}
            }
        }
        let mut out = String::new();
        out.push_str("{\"id\":");
        jstr(&mut out, &id);
        let text = match String::from_utf8(buf) {
            Ok(t) => t,
            Err(_) => {
                out.push_str(",\"stage\":\"utf8\",\"error\":{\"variant\":\"FromUtf8Error\",\"spans\":[]}}");
                let _ = writeln!(stdout, "{}", out);
                let _ = stdout.flush();
                continue;
            }
        };
        let Some(shell) = shell else {
            out.push_str(",\"proto_error\":\"bad shell\"}");
            let _ = writeln!(stdout, "{}", out);
            let _ = stdout.flush();
            continue;
        };
        let mut body = String::new();
        let r = catch_unwind(AssertUnwindSafe(|| {
            pipeline(&text, shell, &w, &mut body);
        }));
        match r {
            Ok(()) => out.push_str(&body),
            Err(p) => {
                let msg = if let Some(s) = p.downcast_ref::<&str>() {
                    s.to_string()
                } else if let Some(s) = p.downcast_ref::<String>() {
                    s.clone()
                } else {
                    "panic".to_string()
                };
                out.push_str(",\"stage\":\"panic\",\"panic\":");
                jstr(&mut out, &msg);
            }
        }
        if w.repeat > 0 && r_is_ok(&out) {
            // In-process repetition: identical bytes for script and dot every time.
            let first = {
                let mut b = String::new();
                let ww = Wants {
                    parse: false,
                    valid: false,
                    dfa: false,
                    subraw: false,
                    script: true,
                    dot: true,
                    regex: false,
                    repeat: 0,
                };
                let _ = catch_unwind(AssertUnwindSafe(|| pipeline(&text, shell, &ww, &mut b)));
                b
            };
            let mut same = true;
            for _ in 0..w.repeat {
                let mut b = String::new();
                let ww = Wants {
                    parse: false,
                    valid: false,
                    dfa: false,
                    subraw: false,
                    script: true,
                    dot: true,
                    regex: false,
                    repeat: 0,
                };
                let _ = catch_unwind(AssertUnwindSafe(|| pipeline(&text, shell, &ww, &mut b)));
                if b != first {
                    same = false;
                }
            }
            let _ = write!(out, ",\"repeat_same\":{},\"repeat_body\":", same);
            jstr(&mut out, &first);
        }
        out.push('}');
        let _ = writeln!(stdout, "{}", out);
        let _ = stdout.flush();
    }
}

fn r_is_ok(out: &str) -> bool {
    !out.contains("\"stage\":\"panic\"")
}
