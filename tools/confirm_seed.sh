#!/bin/bash
# usage: tools/confirm_seed.sh <seed dir name>   confirms in a scratch worktree: applies, tests pass, demo fails on mutant / passes on original
set -u
S=/verif/seeded/$1
W=/tmp/wt/verify
if [ ! -d $W ]; then git -C /repo worktree add -q $W HEAD; fi
git -C $W checkout -q --detach $(git -C /repo rev-parse HEAD) 2>/dev/null
git -C $W checkout -q -- . 
export CARGO_TARGET_DIR=$W/target CARGO_NET_OFFLINE=true
cd $W
if [ ! -x $W/orig-complgen ] || [ "$(cat $W/orig-rev 2>/dev/null)" != "$(git rev-parse HEAD)" ]; then
  cargo build --offline -q 2>&1 | tail -2; cp target/debug/complgen orig-complgen; git rev-parse HEAD > orig-rev
fi
git apply $S/patch.diff || { echo "PATCH DOES NOT APPLY"; exit 2; }
tests=$(cargo test --offline 2>&1 | grep -E "^test result" | head -1)
cargo build --offline -q 2>&1 | tail -2
cp target/debug/complgen mutant-complgen
bash $S/demo.sh $W/orig-complgen > /tmp/demo.orig.log 2>&1; o=$?
bash $S/demo.sh $W/mutant-complgen > /tmp/demo.mut.log 2>&1; m=$?
git checkout -q -- .
echo "$1: tests: $tests | demo on original exit=$o | demo on mutant exit=$m"
