#!/bin/bash
# Every "fix:" commit of /repo reverted on its own must be reported by the check(s) that found the defect.
cd /verif
out=/verif/seeded/revfix/RESULTS.txt
: > $out
run() { echo "== revert $1 ($2)" >> $out; tools/seedtest.sh seeded/revfix/$1.diff $3 >> $out 2>&1; }
run eaee17d "|| level propagation" "C02 C01"
run 0a1ed52 "minimize all-accepting" "C03"
run 2a7d5ef "span after backslash escape" "C13 C06"
run da91cf3 "cycle detection" "C06 C08"
run 4b359f1 "multi-line span clamp" "C06"
run 56b0ab9 "subword spaces over-rejection" "C08"
run 5ae3ad3 "tail-only nonterminal over-rejection" "C08"
run 34d1c60 "unreachable in conflicting descriptions path" "C08 C06"
run f7453fc "bash read splitting" "C17"
run ae2183b "bash glob patterns" "C17 C07"
run 1c12e4f "PATH override" "C11"
run 8e7caa3 "bash backslash escape" "C07"
run 8219055 "bash prefix stripping quoting" "C07"
run a4fe789 "DOT escaping" "C16"
run 753c40f "input pool equality as sets" "C10 C02"
run 239cc0e "minimisation early break" "C03 C02"
run e79f72e "compadd candidate tables in the shape comparison" "C04"
echo DONE >> $out
