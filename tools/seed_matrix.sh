#!/bin/bash
# every kept seeded change against the check that owns its property (or, where the record says the owner stays
# silent, the first check recorded as catching it); writes seeded/MATRIX.txt
cd /verif
out=seeded/MATRIX.txt
: > $out
for d in seeded/S*/; do
  id=$(basename $d)
  [ -n "$1" ] && [[ $id != $1* ]] && continue
  checks=$(python3 - "$d" <<'P'
import json,sys
m=json.load(open(sys.argv[1]+'/meta.json'))
db=m['detected_by']; own=m['property']
bad=lambda v: str(v).lower().startswith(('silent','missed','first silent')) and 'VIOLATION' not in str(v) and 'caught' not in str(v)
if own in db and not bad(db[own]): print(own)
else:
    for k,v in db.items():
        if not bad(v): print(k); break
P
)
  echo "== $id ($checks)" >> $out
  tools/seedtest.sh $d/patch.diff $checks >> $out 2>&1
done
echo DONE >> $out
