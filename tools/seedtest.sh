#!/bin/bash
# usage: tools/seedtest.sh <patch.diff> <CHECK>...   (applies the patch to /repo, runs the quick checks, reverts)
set -u
patch=$(readlink -f "$1"); shift
cd /verif
# evidence of runs against a patched /repo must not replace the evidence of the real tree
export VERIF_EVIDENCE_DIR=/tmp/seedtest-evidence
mkdir -p $VERIF_EVIDENCE_DIR
if ! git -C /repo diff --quiet; then echo "/repo has uncommitted changes"; exit 2; fi
if ! git -C /repo apply "$patch"; then echo "patch does not apply"; exit 2; fi
trap 'git -C /repo checkout -- . ' EXIT
for c in "$@"; do
    VERIF_SEED=${VERIF_SEED:-0} ./vf check "$c" --tier "${TIER:-quick}" > /tmp/seedtest.$c.log 2>&1
    rc=$?
    echo "$c exit=$rc violations=$(grep -c '^VIOLATION' /tmp/seedtest.$c.log) first: $(grep -A1 -m1 '^VIOLATION' /tmp/seedtest.$c.log | tail -1 | cut -c1-220)"
done
