#!/bin/bash
# runs every quick check at the given seeds on the unchanged tree; prints one line per run
cd /verif
for s in "$@"; do
  for c in C01 C02 C03 C04 C05 C06 C07 C08 C09 C10 C11 C12 C13 C14 C15 C16 C17; do
    VERIF_SEED=$s ./vf check $c --tier ${TIER:-quick} > /tmp/regress.$c.$s.log 2>&1; rc=$?
    echo "seed=$s $c exit=$rc $(tail -1 /tmp/regress.$c.$s.log | cut -c1-160)"
    if [ $rc -ne 0 ]; then grep -A1 "^VIOLATION\|^INCONCLUSIVE" /tmp/regress.$c.$s.log | cut -c1-600 | head -6; fi
  done
done
