#!/usr/bin/env python3
"""Regenerates /verif/MANIFEST.json from the table below."""
import json
import os
import subprocess

HERE = os.path.dirname(os.path.dirname(os.path.abspath(__file__)))

CHECKS = {
 'C01': ('exploration',
   'Held on the (grammar, command line, COMP_WORDBREAKS) executions of a run: COMPREPLY of the real emitted script in a real bash equals the reference interpreter\'s answer as a set; two recorded deviations of the script (KF-A, KF-F) are reported as known findings by exact signature.',
   'Trusts cgv/refsem.py + cgv/refrun.py (reference semantics), bash 5.2 as the consumer, a 3-line _get_comp_words_by_ref stub; grammars in the regions the quantifier assigns to C09/C12 are skipped and counted.',
   'runtime monitoring: reference-model monitor on COMPREPLY of the emitted script executed in bash'),
 'C02': ('translation_validation',
   'Per compiled (grammar, shell) pair the dumped raw and minimised automata (nested ones inside the symbols) are decided exactly equivalent, labels included, to a reference automaton built independently from the generator\'s AST; held on the pairs the run compiled.',
   'Trusts cgv/refsem.py, cgv/automata.py, and that cgprobe calls the pipeline as src/main.rs does (C04 cross-checks probe vs binary bytes).',
   'runtime monitoring: reference-model monitor over cgprobe automaton dumps (exact language equivalence per execution)'),
 'C03': ('translation_validation',
   'Per automaton produced by the real from_regex_raw (main and every within-word one), and for every nested automaton as stored inside the compiled automaton (its language must be that of some within-word regex, its size minimal): product search for a distinguishing sequence against minimize(), trimness, Moore-refinement singleton classes and size equality with an independent minimisation; exact per automaton, held on those a run produced.',
   'Trusts cgv/automata.py; inputs compared by interned identity.',
   'runtime monitoring: invariant + equivalence oracle over dumped (input, output) pairs of minimize()'),
 'C05': ('exploration',
   'Every tree up to a node bound plus random deep trees over the whole lexical alphabet is printed (canonical and random layout) and parsed by the real Grammar::parse; trees must be equal. Exhaustive for the small-tree family, sampled beyond.',
   'Trusts the printer in cgv/gast.py (precedences as documented in README).',
   'runtime monitoring: print/parse round-trip oracle on Grammar::parse via cgprobe'),
 'C06': ('exploration',
   'Contract monitor on exit status / stderr / stdout / destination file of the real binary (release and debug-assertions builds) over valid, mutated, planted-mistake, token-soup and byte inputs; a larger stream runs in-process through cgprobe and every panic found there is confirmed on the binary. Deep nesting (KF-C) is a recorded finding.',
   'Timeouts are inconclusive unless reproduced alone with a 10x budget; exponential blow-up is not hunted.',
   'runtime monitoring: process-outcome contract monitor (arithmetic-sanitizer build included)'),
 'C08': ('exploration',
   'Clean-by-construction grammars with at most one planted mistake of the nine classes at random depth/placement; the binary\'s exit status, first error line and the library Error variant must match the planted class; clean grammars (also with juxtaposition nested inside groups of a word) must be accepted for all four shells. KF-I (literals juxtaposed inside a group of a word are rejected) is a recorded finding.',
   'Classes 7-9 planted only where call variants reach them.',
   'runtime monitoring: planted-fault oracle on exit status and diagnostics'),
 'C10': ('exploration',
   'Each (grammar, shell) - large random grammars, families with many permuted within-word pairs and with several external commands per state - compiled K times in fresh processes with differing environment / cwd / ASLR / input channel plus R times in-process; script, --dfa and --regex bytes must all be identical.',
   'In this sandbox hashbrown/ahash/ustr hash with fixed keys, so only std RandomState, address, time or environment leaks can show; stated in evidence.',
   'runtime monitoring: metamorphic monitor (identical bytes across processes and repeats)'),
 'C13': ('exploration',
   'Every located diagnostic of the binary on planted grammars with random multi-line layout must name the exact start of a token of the kind the message is about (the planted token for planted warnings / parse errors; for the reference trace of a spaces-in-a-word error, a reference through which the literals are actually reached) and echo that source line.',
   'ASCII only, so byte and character columns coincide.',
   'runtime monitoring: planted-location oracle over stderr of the binary'),
 'C14': ('exploration',
   'Script bytes for all four shells must be identical between the canonical text and K meaning-preserving re-layouts (blanks, comments, form feeds, ::=, final ;, redundant parentheses, definition permutations).',
   'Same binary for all variants.',
   'runtime monitoring: metamorphic monitor (identical bytes under re-layout)'),
 'C15': ('exploration',
   'Multiset of (warning kind, name) from the binary\'s stderr equals the multiset computed from the AST for the target shell; locations are occurrences of the name; exit 0; script identical to that of the grammar without its unused definitions.',
   '"refers to" counts references from any statement.',
   'runtime monitoring: multiset oracle + metamorphic monitor on warnings'),
 'C04': ('translation_validation',
   'Per compiled (grammar, shell): the binary\'s script must equal byte for byte the script cgprobe gets from the same library calls next to the automaton dump; its tables are read back (bash: RETURN-trap dump of the locals as bash decoded them; fish/zsh/pwsh: independent readers) and compared entry by entry with that automaton, nested automata and shared shape functions included; every bash within-word function must declare each table the shared matcher reads. KF-B consequences are known findings.',
   'fish/zsh/pwsh are not installed: their table syntax is read by cgv/readers.py, their control code is not executed.',
   'runtime monitoring: table-by-table agreement monitor between emitted scripts and the dumped automaton'),
 'C07': ('exploration',
   'Strings over the whole admissible character set are placed as literals, within-word items and descriptions; all four scripts of the real binary are decoded with independent implementations of each shell\'s double-quote rules (set equality with the grammar\'s strings, nothing expandable), and bash is executed: bash -n, exact candidates, exact matching with near-miss rejection, exact prefix stripping, canary directory unchanged.',
   'fish/zsh/pwsh by decoding only (typographic quotes in a pwsh constant: recorded finding KF-L, judged by the documented tokenizer rule); command names plain.',
   'runtime monitoring: decode-and-compare oracle on string constants + execution in bash with a canary'),
 'C09': ('exploration',
   '(a) every state of every compiled automaton is searched for two outgoing items with different targets that accept a common word; (b) the || grammar and its | variant are run in bash on the same command lines and must agree on return code, emptiness, subset and the minimal-branch clause; (c) for every grammar of the profile the compiled automaton of the || grammar with all || indices erased must accept the same language as the compiled automaton of its | spelling. KF-B, KF-E, KF-G are recorded findings.',
   '(a) under-approximates on paths through commands/placeholders inside words; branch indices for (b) from cgv/refsem.py.',
   'runtime monitoring: invariant on dumped automata + metamorphic monitor (|| vs |) on bash executions'),
 'C11': ('exploration',
   'The complete space of 6144 cases (32 definition subsets x 3 names x 16 reference positions - top level, word tail, behind one definition, behind two definitions under four name pairs, under ||, under ..., under a within-word ||, behind one definition below [] / ... / || / inside a word, in a word that follows another external command, behind three definitions - x 4 targets) plus plain non-command PATH/DIRECTORY definitions is compiled; the rule is observed on the automaton\'s command symbols, on the command function bodies of the emitted script and, for bash, by execution in a scratch directory.',
   'Built-in case for fish/zsh/pwsh judged as "one body that is none of the markers".',
   'runtime monitoring: exhaustive rule oracle over probe dumps, emitted scripts and bash executions'),
 'C12': ('exploration',
   'Value sets with prefix chains in within-word alternations (one word, through a definition, with a suffix, two words in sequence, two alternative words of the same table shape) are compiled and run in bash: every value as a complete word must be recognised, non-values not, every proper prefix must offer exactly the values extending it. KF-D (shorter value not recognised) is a recorded finding.',
   'COMP_WORDBREAKS empty; the case the statement leaves open is recorded, not judged.',
   'runtime monitoring: value-set oracle on bash executions'),
 'C16': ('exploration',
   'The --dfa and --regex files written by the real binary are parsed with an independent DOT parser and compared with the automaton / regex dumped by cgprobe for the same grammar: node set per numbering base, start/accepting marks, one named edge per transition, clusters with entry/exit edges, every item as a regex node.',
   'Graphviz is not installed: validity is judged by cgv/dotparse.py; labels compared by containment.',
   'runtime monitoring: well-formedness + agreement oracle on the Graphviz files'),
 'C17': ('exploration',
   'Probe commands log (id, $1, $2) per invocation; per command line an offline checker verifies that every invocation belongs to a command expected on the walk, that arguments follow the documented convention, that commands whose candidates are offered were invoked with exactly those arguments, and that COMPREPLY equals the reference answer (candidates with spaces, tabs, prefix chains). KF-A / KF-F recognised by exact signature.',
   'bash 5.2; commands are harness functions called through the emitted wrappers.',
   'runtime monitoring: offline checker over the invocation log + reference-model monitor on COMPREPLY'),
}
PENDING = {}

def main():
    props = [json.loads(l) for l in open(os.path.join(HERE, 'properties.jsonl'))]
    repo_commits = subprocess.run(['git', '-C', '/repo', 'log', '--format=%h %s'], stdout=subprocess.PIPE).stdout.decode().split('\n')
    hooks = [l.split()[0] for l in repo_commits if 'verif hook' in l]
    m = {
        'version': 1,
        'setup_cmd': './vf setup',
        'hooks': {
            'guard': 'cargo feature `verif` (off by default; read-only accessors only)',
            'enable': 'cargo build --release --offline --features verif with CARGO_TARGET_DIR=/verif/build/rel; /verif/probe depends on /repo with features=["verif"]',
            'baseline_off_cmd': 'cd /repo && cargo test --workspace --no-fail-fast --offline',
            'source_commits': hooks,
            'add_only': True,
        },
        'engines': [{'name': 'cgv', 'path': '/verif/cgv', 'serves_properties': sorted(CHECKS),
                     'kind_free_text': 'Python monitors (generators, reference semantics, oracles) driving the real complgen binary, the cgprobe library probe and the emitted scripts in a real bash'},
                    {'name': 'cgprobe', 'path': '/verif/probe', 'serves_properties': ['C02', 'C03', 'C04', 'C05', 'C06', 'C08', 'C09', 'C10', 'C11', 'C16'],
                     'kind_free_text': 'Rust binary linking /repo (feature verif) that runs the pipeline like src/main.rs and dumps what it produced as JSON; no checking logic'}],
        'checks': [],
        'not_applicable': [],
        'notes': 'Runtime monitoring only. Known findings: /verif/known_findings.json. Design: /verif/DESIGN.md.',
    }
    for p in props:
        pid = p['id']
        if pid in CHECKS:
            cat, text, note, tech = CHECKS[pid]
            m['checks'].append({
                'property_id': pid,
                'quick_cmd': './vf check %s --tier quick' % pid,
                'thorough_cmd': './vf check %s --tier thorough' % pid,
                'evidence_file': '/verif/evidence/%s.json' % pid,
                'replay_cmd_template': './vf replay {path}',
                'engine': 'cgv',
                'level_claimed': {'category': cat, 'text': text, 'design_ref': 'DESIGN.md section 3, ' + pid},
                'level_note': note,
                'technique': tech,
            })
        else:
            m['not_applicable'].append({'property_id': pid, 'reason': PENDING.get(pid, 'monitor not built yet in this session; not claimed until it exists')})
    with open(os.path.join(HERE, 'MANIFEST.json'), 'w') as f:
        json.dump(m, f, indent=1)
    print('checks:', [c['property_id'] for c in m['checks']], 'not claimed:', [n['property_id'] for n in m['not_applicable']])

main()
