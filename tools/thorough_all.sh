#!/bin/bash
# every thorough tier once, one after the other (process creation does not scale in this sandbox)
cd "$(dirname "$0")/.."
export VERIF_EVIDENCE_DIR=${VERIF_EVIDENCE_DIR:-/tmp/thorough-evidence}
mkdir -p "$VERIF_EVIDENCE_DIR"
for c in C02 C03 C05 C16 C09 C12 C10 C13 C14 C15 C08 C04 C11 C07 C17 C06 C01; do
  s=$(date +%s)
  VERIF_SEED=${VERIF_SEED:-0} ./vf check $c --tier thorough > /tmp/thorough.$c.log 2>&1; rc=$?
  echo "$c exit=$rc $(( $(date +%s) - s ))s $(tail -1 /tmp/thorough.$c.log | cut -c1-150)"
  if [ $rc -ne 0 ]; then grep -A1 "^VIOLATION\|^INCONCLUSIVE" /tmp/thorough.$c.log | cut -c1-500 | head -6; fi
done
