"""Hostile input generators for the totality check (C06)."""
import random

from . import gast, gen

LEX = ['a', 'b', 'foo', '--x', '--y=', 'k:', '<A>', '<B>', '<C>', '<_>', '<PATH>', '<A@bash>', '<B@zsh>',
       '<C@nosh>', '(', ')', '[', ']', '|', '||', '...', ';', '=', '::=', '"d"', '"', '\\', '\\;', '\\.',
       '{{{ echo x }}}', '{{{', '}}}', '{', '}', '<', '>', '#c', '\n', ' ', '\t', '\x0c', '.', '..',
       'cmd', 'cmd/x', 'é', '"é\\""', '\r\n', '@', "'", '`', '$', '*', '?', '~', '!', '\x00']


def token_mutations(r, text, tokens):
    """Structure-aware mutation using the printer's token table (byte offsets)."""
    data = text.encode('utf-8')
    if not tokens:
        return text
    k = r.random()
    t = r.choice(tokens)
    seg = data[t['off']:t['end']]
    if k < 0.18:      # delete a token
        out = data[:t['off']] + data[t['end']:]
    elif k < 0.34:    # duplicate a token
        out = data[:t['end']] + seg + data[t['end']:]
    elif k < 0.46:    # swap two tokens
        u = r.choice(tokens)
        a, b = (t, u) if t['off'] <= u['off'] else (u, t)
        if a['end'] <= b['off']:
            out = (data[:a['off']] + data[b['off']:b['end']] + data[a['end']:b['off']] +
                   data[a['off']:a['end']] + data[b['end']:])
        else:
            out = data
    elif k < 0.58:    # truncate at a token boundary or in the middle of a token
        cut = t['off'] if r.random() < 0.5 else r.randint(t['off'], t['end'])
        out = data[:cut]
    elif k < 0.72:    # insert a lexical token
        out = data[:t['off']] + r.choice(LEX).encode('utf-8') + data[t['off']:]
    elif k < 0.80:    # replace a token by a lexical token
        out = data[:t['off']] + r.choice(LEX).encode('utf-8') + data[t['end']:]
    elif k < 0.88:    # newline in front of a token (multi-line constructs)
        out = data[:t['off']] + b'\n' + data[t['off']:]
    elif k < 0.94:    # unbalance: drop every closing bracket after here
        tail = data[t['off']:].replace(b')', b'', 1).replace(b']', b'', 1)
        out = data[:t['off']] + tail
    else:             # flip a byte (may create invalid UTF-8)
        if data:
            i = r.randrange(len(data))
            out = data[:i] + bytes([r.randrange(256)]) + data[i + 1:]
        else:
            out = data
    return out


def token_soup(r):
    n = r.choice([1, 2, 3, 5, 8, 13, 21, 40])
    parts = []
    for _ in range(n):
        parts.append(r.choice(LEX))
        if r.random() < 0.6:
            parts.append(' ')
    s = ''.join(parts)
    if r.random() < 0.5:
        s = 'cmd ' + s
    if r.random() < 0.5:
        s += ';'
    return s.encode('utf-8')


def random_bytes(r):
    n = r.choice([0, 1, 2, 5, 17, 64, 300])
    k = r.random()
    if k < 0.4:
        return bytes(r.randrange(256) for _ in range(n))
    if k < 0.7:
        return bytes(r.choice(b'cmd ab<>()[]|;="{}.\\\n #@') for _ in range(n))
    return ('cmd ' + ''.join(chr(r.choice([0x41, 0xe9, 0x65e5, 0x1f600, 0x20, 0x22, 0x3c, 0x3e])) for _ in range(n)) + ';').encode('utf-8')


def nested(depth, open_='(', close=')'):
    return ('cmd ' + open_ * depth + 'a' + close * depth + ';').encode()


def cyclic_grammars():
    """Cycles: self, mutual, reachable / not reachable from call variants or from a root."""
    out = [
        'cmd <A>; <A> = <A>;',
        'cmd <A>; <A> = a <A>;',
        'cmd <A>; <A> = <B>; <B> = <A>;',
        'cmd x; <A> = <B>; <B> = <A>;',
        'cmd <A>; <A> = <B>; <B> = <A>; <C> = foo;',
        'cmd x; <A> = <B>; <B> = <A>; <C> = foo;',
        'cmd <R>; <R> = <A>; <A> = <B>; <B> = <A>;',
        'cmd <R>; <R> = x; <A> = <B> y; <B> = [<C>]; <C> = (<A> | z)...;',
        'cmd <C>; <A> = <B>; <B> = <A> <C>; <C> = foo;',
        'cmd --o=<A>; <A> = <B>; <B> = x<A>;',
        'cmd <A>; <A> = <B>; <B> = <C>; <C> = <D>; <D> = <B>; <E> = e;',
        'cmd <E>; <E> = e; <A> = <A> | b;',
    ]
    return [o.encode() for o in out]


def multiline_shapes():
    """Constructs whose span ends on another line than it starts on."""
    out = [
        'cmd --input <FI\nLE> [--verbose];',
        'cmd a;\n<UN\nUSED> = x;',
        'cmd a;\n<S\nP@bash> = {{{ x }}};\n<S\nP@fish> = {{{ x }}};\n<S\nP@zsh> = {{{ x }}};\n<S\nP@pwsh> = {{{ x }}};',
        'cmd k=<a long\n name>;',
        'cmd a\n"d" <X>;\n<X> = a\n"e";',
        'cmd a;\n<A@bash> = b\n c;',
        'cmd a;\n<A@bash> = (b |\n c);',
        'cmd a;\n<A@fish> = b\n"d";',
        'cmd a\n b;\nother c;',
        'cmd (a\n"x" | a\n"y");',
        'cmd --o=(a\n| b) c\nd <U>;',
        'cmd <A>;\n<A> = x\n y;\n<A> = z;',
        'cmd k=<A>;\n<A> = x\n y;',
        'cmd k=<U>\n\n\nz;',
        'cmd a;\n<A@ksh> = {{{ x\ny }}};',
        'cmd a;\n<A\n@bash> = {{{ x }}};',
        'cmd {{{ a\nb\nc }}} "d";',
        'cmd a\r\n"d" b;\r\n',
        'cmd a;\n<',
        'cmd a;\n\n',
        'cmd a;\n(',
        'cmd a;\n<X> =',
        'cmd a;\n<X> = \n',
        'cmd a "unterminated\n',
        'cmd {{{ unterminated\n',
        'cmd a \\',
        'cmd a\\',
        'cmd a\\q;',
        'cmd "d";',
        'cmd ...;',
        'cmd [ ];',
        'cmd ( );',
        'cmd a | ;',
        'cmd a || ;',
        'cmd/x a;',
        'a/b c;',
        '<A> = a;',
        'cmd a; cmd2 b;',
        'cmd a; <A> = b; <A> = c;',
        'cmd a; <A@bash> = {{{ x }}}; <A@bash> = {{{ y }}};',
        'cmd a; <A@nosh> = {{{ x }}};',
        'cmd a; <A@bash> = b;',
        'cmd (a "x" | a "y");',
        'cmd --o=<A>; <A> = a b;',
        'cmd --o=<A>b;',
        'cmd <A>b<C>;',
        'cmd a\x00b;',
        'cmd é;',
        'cmd a "é日本";',
        '# only a comment',
        '\x0c',
        ';',
        ';;',
        'cmd a;;',
    ]
    return [o.encode() for o in out]
