"""Independent readers of the tables embedded in emitted scripts.

Each reader returns the same neutral structure with 0-based states and literal ids:

    {'main': T, 'subwords': {id0: T}, 'commands': {cmd_id: body}, 'registration': str,
     'constants': [decoded string constants of literal / description tables]}
    T = {'literals': [text], 'descr': {lit0: text}, 'lit_tr': {s: {lit0: to}}, 'cmd_tr': {s: {cmd: to}},
         'compadd_tr': {...}, 'star_tr': {s: to}, 'sub_tr': {s: {sub0: to}}, 'comp_lit': [{s: [lit0]}],
         'comp_cmd': [...], 'comp_compadd': [...], 'comp_sub': [...], 'max_level': n, 'start': s|None}

String constants are decoded with each shell's documented double-quote rules; a constant that
the shell would expand ($, `, unescaped quote, unknown escape that changes the text) raises
NotInert.  A script the reader cannot parse raises ReaderError (inconclusive, never a violation).
"""
import re


class ReaderError(Exception):
    pass


class TableInconsistent(ReaderError):
    """The script was read, but its tables contradict each other (an id that points at no entry, parallel
    lists of different length): a defect of the script, not a limitation of the reader."""


class NotInert(Exception):
    def __init__(self, msg, raw):
        super().__init__(msg)
        self.raw = raw


# ---------------------------------------------------------------------------
# double-quoted string constants

def decode_dq(shell, s, i):
    """s[i] == '"'.  Returns (decoded text, index after the closing quote)."""
    if s[i] != '"':
        raise ReaderError('expected a double quote at %d: %r' % (i, s[i:i + 20]))
    out = []
    j = i + 1
    n = len(s)
    while True:
        if j >= n:
            raise NotInert('unterminated string constant', s[i:i + 60])
        c = s[j]
        if shell == 'pwsh':
            if c == '`':
                if j + 1 >= n:
                    raise NotInert('dangling backtick', s[i:j + 1])
                e = s[j + 1]
                out.append({'n': '\n', 'r': '\r', 't': '\t', '0': '\0', 'a': '\a', 'b': '\b', 'e': '\x1b',
                            'f': '\f', 'v': '\v'}.get(e, e))
                j += 2
                continue
            if c == '"':
                if j + 1 < n and s[j + 1] == '"':
                    out.append('"')
                    j += 2
                    continue
                return ''.join(out), j + 1
            if c == '$':
                nxt = s[j + 1] if j + 1 < n else ''
                if nxt.isalnum() or nxt in '_({?$^:':
                    raise NotInert('unescaped $ would expand in PowerShell', s[i:j + 12])
                out.append(c)
                j += 1
                continue
            if c in '“”„':
                raise NotInert('curly double quote terminates a PowerShell string', s[i:j + 2])
            out.append(c)
            j += 1
            continue
        # bash / zsh / fish
        if c == '\\':
            if j + 1 >= n:
                raise NotInert('dangling backslash', s[i:j + 1])
            e = s[j + 1]
            if shell in ('bash', 'zsh'):
                special = '$`"\\\n'
            else:  # fish
                special = '$"\\\n'
            if e in special:
                if e != '\n':
                    out.append(e)
                j += 2
            else:
                out.append('\\')   # backslash stays, next char handled normally
                j += 1
            continue
        if c == '"':
            return ''.join(out), j + 1
        if c == '$':
            nxt = s[j + 1] if j + 1 < n else ''
            if shell == 'fish':
                if nxt.isalnum() or nxt in '_($':
                    raise NotInert('unescaped $ would expand in fish', s[i:j + 12])
            else:
                if nxt.isalnum() or nxt in '_({\'"?$!#*@-':
                    raise NotInert('unescaped $ would expand', s[i:j + 12])
            out.append(c)
            j += 1
            continue
        if c == '`' and shell in ('bash', 'zsh'):
            raise NotInert('unescaped backtick starts a command substitution', s[i:j + 12])
        out.append(c)
        j += 1


def decode_list(shell, s, sep_comma=False):
    """Sequence of double-quoted constants (and bare words) separated by blanks (or commas)."""
    out = []
    i = 0
    n = len(s)
    while i < n:
        c = s[i]
        if c in ' \t' or (sep_comma and c == ','):
            i += 1
            continue
        if c == '"':
            v, i = decode_dq(shell, s, i)
            out.append(v)
        else:
            j = i
            while j < n and s[j] not in ' \t' and not (sep_comma and s[j] == ','):
                if s[j] in '"\'`$\\;&|<>(){}':
                    raise NotInert('unquoted special character in a table', s[max(0, j - 20):j + 20])
                j += 1
            out.append(s[i:j])
            i = j
    return out


def ints(xs):
    try:
        return [int(x) for x in xs]
    except ValueError:
        raise ReaderError('non-numeric table cell %r' % (xs,))


def new_tables():
    return {'literals': [], 'descr': {}, 'lit_tr': {}, 'cmd_tr': {}, 'compadd_tr': {}, 'star_tr': {}, 'sub_tr': {},
            'comp_lit': {}, 'comp_cmd': {}, 'comp_compadd': {}, 'comp_sub': {}, 'max_level': None, 'start': None}


def finish(t):
    for k in ('comp_lit', 'comp_cmd', 'comp_compadd', 'comp_sub'):
        d = t[k]
        n = (max(d) + 1) if d else 0
        t[k] = [d.get(i, {}) for i in range(n)]
    return t


def parse_kv(body, base_state=0):
    """'[1]=2 [3]=4' -> {1-base: 2-base}"""
    out = {}
    for m in re.finditer(r'\[(\d+)\]=(\d+)', body):
        out[int(m.group(1))] = int(m.group(2))
    rest = re.sub(r'\[(\d+)\]=(\d+)', '', body).strip()
    if rest:
        raise ReaderError('unparsed cell %r' % body)
    return out


# ---------------------------------------------------------------------------
# function splitting

def split_functions(script, shell):
    """-> ordered list of (name, body_text)"""
    out = []
    if shell in ('bash', 'zsh'):
        pat = re.compile(r'^(_[^\s()]+) \(\) \{\n(.*?)\n\}\n', re.S | re.M)
    elif shell == 'fish':
        pat = re.compile(r'^function (\S+)\n(.*?)\nend\n', re.S | re.M)
    else:
        pat = re.compile(r'^function (\S+) \{\n(.*?)\n\}\n', re.S | re.M)
    for m in pat.finditer(script):
        out.append((m.group(1), m.group(2)))
    return out


def command_bodies(funcs, cmdname):
    out = {}
    pre = '_%s_cmd_' % cmdname
    for name, body in funcs:
        if name.startswith(pre) and name[len(pre):].isdigit():
            lines = body.split('\n')
            out[int(name[len(pre):])] = '\n'.join(l[4:] if l.startswith('    ') else l for l in lines).strip()
    return out


DESCR_START = re.compile(r'^\s*(set (--global )?\w*descrs\[\d+\] "|\w*descriptions\[\d+\]=")')


def logical_lines(body):
    """Physical lines, except that a description constant holding raw line breaks (legal inside double quotes in
    fish and zsh) is returned as one logical line."""
    out = []
    lines = body.split('\n')
    i = 0
    while i < len(lines):
        cur = lines[i]
        if DESCR_START.match(cur):
            def open_(t):
                q = t.index('"')
                j, inside = q, False
                while j < len(t):
                    c = t[j]
                    if c == '\\':
                        j += 2
                        continue
                    if c == '"':
                        inside = not inside
                    j += 1
                return inside
            while open_(cur) and i + 1 < len(lines) and cur.count('\n') < 50:
                i += 1
                cur += '\n' + lines[i]
        out.append(cur)
        i += 1
    return out


# ---------------------------------------------------------------------------
# zsh

def read_zsh_block(body, prefix, consts):
    t = new_tables()
    B = 1
    got = False
    for line in logical_lines(body):
        l = line.strip()
        m = re.match(r'declare -a %sliterals=\((.*)\)$' % prefix, l)
        if m:
            t['literals'] = decode_list('zsh', m.group(1))
            consts.extend(t['literals'])
            got = True
            continue
        m = re.match(r'%sdescriptions\[(\d+)\]=(".*)$' % prefix, l, re.S)
        if m:
            v, end = decode_dq('zsh', m.group(2), 0)
            if m.group(2)[end:].strip():
                raise NotInert('text after a description constant', l[:80])
            t.setdefault('_descs', {})[int(m.group(1))] = v
            consts.append(v)
            continue
        m = re.match(r'declare -A %sdescr_id_from_literal_id=\((.*)\)$' % prefix, l)
        if m:
            t['_descr_ids'] = parse_kv(m.group(1))
            continue
        m = re.match(r'%s(literal|command|compadd|subword)_transitions\[(\d+)\]="\((.*)\)"$' % prefix, l)
        if m:
            kind, st, cell = m.group(1), int(m.group(2)) - B, m.group(3)
            kv = parse_kv(cell)
            if kind == 'literal':
                t['lit_tr'][st] = {k - B: v - B for k, v in kv.items()}
            elif kind == 'command':
                t['cmd_tr'][st] = {k: v - B for k, v in kv.items()}
            elif kind == 'compadd':
                t['compadd_tr'][st] = {k: v - B for k, v in kv.items()}
            else:
                t['sub_tr'][st] = {k - B: v - B for k, v in kv.items()}
            got = True
            continue
        m = re.match(r'declare -A %sstar_transitions=\((.*)\)$' % prefix, l)
        if m:
            t['star_tr'] = {k - B: v - B for k, v in parse_kv(m.group(1)).items()}
            continue
        m = re.match(r'declare -A %s(literal_transitions|commands|compadd_commands|subword_transitions)_level_(\d+)=\((.*)\)$' % prefix, l)
        if m:
            kind, lv, cell = m.group(1), int(m.group(2)), m.group(3)
            d = {}
            for mm in re.finditer(r'\[(\d+)\]="([^"]*)"', cell):
                d[int(mm.group(1)) - B] = ints(mm.group(2).split())
            key = {'literal_transitions': 'comp_lit', 'commands': 'comp_cmd', 'compadd_commands': 'comp_compadd',
                   'subword_transitions': 'comp_sub'}[kind]
            if key in ('comp_lit', 'comp_sub'):
                d = {s: [x - B for x in v] for s, v in d.items()}
            t[key][lv] = d
            continue
        m = re.match(r'declare %smax_fallback_level=(\d+)$' % prefix, l)
        if m:
            t['max_level'] = int(m.group(1))
            continue
        m = re.match(r'declare state=(\d+)$', l)
        if m and not prefix:
            t['start'] = int(m.group(1)) - B
    descs = t.pop('_descs', {})
    ids = t.pop('_descr_ids', {})
    for lit_id, did in ids.items():
        if did not in descs:
            raise TableInconsistent('description id %d not defined' % did)
        t['descr'][lit_id - B] = descs[did]
    return finish(t), got


def read_zsh(script, cmdname='cmd'):
    funcs = split_functions(script, 'zsh')
    consts = []
    res = {'subwords': {}, 'commands': command_bodies(funcs, cmdname), 'constants': consts}
    shapes = {}
    wrappers = {}
    main = None
    for name, body in funcs:
        pre = '_%s_subword_' % cmdname
        if name.startswith(pre + 'shape_'):
            shapes[int(name[len(pre) + 6:])], _ = read_zsh_block(body, 'subword_', consts)
        elif name.startswith(pre) and name[len(pre):].isdigit():
            t, _ = read_zsh_block(body, 'subword_', consts)
            m = re.search(r'_%s_subword_shape_(\d+) "\$@"' % re.escape(cmdname), body)
            wrappers[int(name[len(pre):]) - 1] = (t, int(m.group(1)) if m else None)
        elif name == '_' + cmdname:
            main, _ = read_zsh_block(body, '', consts)
    if main is None:
        raise ReaderError('no main function _%s' % cmdname)
    for k, (t, shape) in wrappers.items():
        if shape is not None:
            if shape not in shapes:
                raise TableInconsistent('shape %d missing' % shape)
            merged = dict(shapes[shape])
            merged['literals'] = t['literals']
            merged['descr'] = t['descr']
            res['subwords'][k] = merged
        else:
            res['subwords'][k] = t
    res['main'] = main
    m = re.search(r'^\s*compdef (\S+) (\S+)$', script, re.M)
    res['registration'] = (m.group(1), m.group(2)) if m else None
    return res


# ---------------------------------------------------------------------------
# fish

def read_fish_block(body, prefix, consts):
    t = new_tables()
    B = 1
    sc = r'set (?:--global )?%s' % prefix
    inputs = tos = None
    descs = {}
    dlit = dids = None
    froms = {}
    cells = {}
    sub_ids = {}
    sub_tos = {}
    for line in logical_lines(body):
        l = line.strip()
        m = re.match(sc + r'literals (.*)$', l)
        if m:
            t['literals'] = decode_list('fish', m.group(1))
            consts.extend(t['literals'])
            continue
        m = re.match(sc + r'descrs\[(\d+)\] (".*)$', l, re.S)
        if m:
            v, end = decode_dq('fish', m.group(2), 0)
            if m.group(2)[end:].strip():
                raise NotInert('text after a description constant', l[:80])
            descs[int(m.group(1))] = v
            consts.append(v)
            continue
        m = re.match(sc + r'descr_literal_ids (.+)$', l)
        if m:
            dlit = ints(m.group(1).split())
            continue
        m = re.match(sc + r'descr_ids (.+)$', l)
        if m:
            dids = ints(m.group(1).split())
            continue
        m = re.match(sc + r'literal_transitions_inputs (.+)$', l)
        if m:
            inputs = decode_list('fish', m.group(1))
            continue
        m = re.match(sc + r'literal_transitions_tos (.+)$', l)
        if m:
            tos = decode_list('fish', m.group(1))
            continue
        m = re.match(sc + r'command_transitions\[(\d+)\] (".*")$', l)
        if m:
            v, _ = decode_dq('fish', m.group(2), 0)
            d = {}
            for cell in v.split():
                a, b = cell.split(',')
                d[int(a)] = int(b) - B
            t['cmd_tr'][int(m.group(1)) - B] = d
            continue
        m = re.match(sc + r'star_transitions_(from|to) (.+)$', l)
        if m:
            t['_star_' + m.group(1)] = ints(m.group(2).split())
            continue
        m = re.match(r'set subword_transitions_(ids|tos)\[(\d+)\] (".*")$', l)
        if m and not prefix:
            v, _ = decode_dq('fish', m.group(3), 0)
            (sub_ids if m.group(1) == 'ids' else sub_tos)[int(m.group(2)) - B] = ints(v.split())
            continue
        m = re.match(sc + r'(literal_froms|command_froms|subword_froms)_level_(\d+) ?(.*)$', l)
        if m:
            froms[(m.group(1), int(m.group(2)))] = ints(m.group(3).split())
            continue
        m = re.match(sc + r'(literal_inputs|commands|subwords)_level_(\d+) ?(.*)$', l)
        if m:
            cells[(m.group(1), int(m.group(2)))] = decode_list('fish', m.group(3))
            continue
        m = re.match(r'set --global subword_max_fallback_level (\d+)$', l)
        if m:
            t['max_level'] = int(m.group(1))
            continue
        m = re.match(r'set state (\d+)$', l)
        if m and not prefix:
            t['start'] = int(m.group(1)) - B
    if inputs is not None:
        if tos is None or len(tos) != len(inputs):
            raise TableInconsistent('literal_transitions inputs/tos length mismatch')
        for st, (a, b) in enumerate(zip(inputs, tos)):
            ia, ib = ints(a.split()), ints(b.split())
            if len(ia) != len(ib):
                raise TableInconsistent('literal_transitions cell length mismatch')
            if ia:
                t['lit_tr'][st] = {x - B: y - B for x, y in zip(ia, ib)}
    sf, st_ = t.pop('_star_from', []), t.pop('_star_to', [])
    if len(sf) != len(st_):
        raise TableInconsistent('star from/to mismatch')
    t['star_tr'] = {a - B: b - B for a, b in zip(sf, st_)}
    if dlit is not None:
        if dids is None or len(dids) != len(dlit):
            raise TableInconsistent('descr ids mismatch')
        for lid, did in zip(dlit, dids):
            t['descr'][lid - B] = descs.get(did)
    for st in sub_ids:
        if st not in sub_tos or len(sub_tos[st]) != len(sub_ids[st]):
            raise TableInconsistent('subword ids/tos mismatch')
        t['sub_tr'][st] = {a - B: b - B for a, b in zip(sub_ids[st], sub_tos[st])}
    for (kind, lv), fr in froms.items():
        ckind = {'literal_froms': 'literal_inputs', 'command_froms': 'commands', 'subword_froms': 'subwords'}[kind]
        cs = cells.get((ckind, lv), [])
        if len(cs) != len(fr):
            raise TableInconsistent('%s level %d: %d states, %d cells' % (kind, lv, len(fr), len(cs)))
        key = {'literal_froms': 'comp_lit', 'command_froms': 'comp_cmd', 'subword_froms': 'comp_sub'}[kind]
        d = {}
        for s, c in zip(fr, cs):
            v = ints(c.split())
            if key != 'comp_cmd':
                v = [x - B for x in v]
            d[s - B] = v
        t[key][lv] = d
    return finish(t)


def read_fish(script, cmdname='cmd'):
    funcs = split_functions(script, 'fish')
    consts = []
    res = {'subwords': {}, 'commands': command_bodies(funcs, cmdname), 'constants': consts}
    shapes, wrappers, main = {}, {}, None
    pre = '_%s_subword_' % cmdname
    for name, body in funcs:
        if name.startswith(pre + 'shape_'):
            shapes[int(name[len(pre) + 6:])] = read_fish_block(body, 'subword_', consts)
        elif name.startswith(pre) and name[len(pre):].isdigit():
            t = read_fish_block(body, 'subword_', consts)
            m = re.search(r'_%s_subword_shape_(\d+) "\$argv\[1\]"' % re.escape(cmdname), body)
            wrappers[int(name[len(pre):]) - 1] = (t, int(m.group(1)) if m else None)
        elif name == '_' + cmdname:
            main = read_fish_block(body, '', consts)
    if main is None:
        raise ReaderError('no main function')
    for k, (t, shape) in wrappers.items():
        if shape is not None:
            merged = dict(shapes[shape])
            merged['literals'] = t['literals']
            merged['descr'] = t['descr']
            res['subwords'][k] = merged
        else:
            res['subwords'][k] = t
    res['main'] = main
    m = re.search(r'^complete --command (\S+) --no-files --arguments "\((\S+)\)"$', script, re.M)
    res['registration'] = (m.group(2), m.group(1)) if m else None
    return res


# ---------------------------------------------------------------------------
# pwsh

def parse_ps_hash(cell):
    """'0=1;2=1' -> {0:1, 2:1};  '0=@(0,2); 3=@(1)' -> {0:[0,2], 3:[1]}"""
    out = {}
    cell = cell.strip()
    if not cell:
        return out
    for part in re.split(r';\s*', cell):
        if not part:
            continue
        m = re.match(r'^(\d+)=@\(([\d,]*)\)$', part)
        if m:
            out[int(m.group(1))] = ints([x for x in m.group(2).split(',') if x])
            continue
        m = re.match(r'^(\d+)=(\d+)$', part)
        if m:
            out[int(m.group(1))] = int(m.group(2))
            continue
        raise ReaderError('unparsed hashtable cell %r' % part)
    return out


def read_pwsh_block(body, consts):
    t = new_tables()
    lines = body.split('\n')
    i = 0
    while i < len(lines):
        l = lines[i].strip()
        i += 1
        m = re.match(r'\$literals = @\((.*)\)$', l)
        if m:
            t['literals'] = decode_list('pwsh', m.group(1), sep_comma=True)
            consts.extend(t['literals'])
            continue
        if l == '$descriptions = @{':
            while i < len(lines) and lines[i].strip() != '}':
                mm = re.match(r'\s*(\d+) = (".*);$', lines[i])
                if not mm:
                    raise NotInert('malformed description entry', lines[i][:80])
                v, end = decode_dq('pwsh', mm.group(2), 0)
                if mm.group(2)[end:].strip():
                    raise NotInert('text after a description constant', lines[i][:80])
                t['descr'][int(mm.group(1))] = v
                consts.append(v)
                i += 1
            i += 1
            continue
        m = re.match(r'\$(literal|command|subword)_transitions\[(\d+)\] = @\{(.*)\}$', l)
        if m:
            key = {'literal': 'lit_tr', 'command': 'cmd_tr', 'subword': 'sub_tr'}[m.group(1)]
            t[key][int(m.group(2))] = parse_ps_hash(m.group(3))
            continue
        m = re.match(r'\$star_transitions = @\{(.*)\}$', l)
        if m:
            t['star_tr'] = parse_ps_hash(m.group(1))
            continue
        m = re.match(r'\$(literal_transitions|commands|subword_transitions)_level_(\d+) = @\{(.*)\}$', l)
        if m:
            key = {'literal_transitions': 'comp_lit', 'commands': 'comp_cmd', 'subword_transitions': 'comp_sub'}[m.group(1)]
            t[key][int(m.group(2))] = parse_ps_hash(m.group(3))
            continue
        m = re.match(r'\$max_fallback_level = (\d+)$', l)
        if m:
            t['max_level'] = int(m.group(1))
            continue
        m = re.match(r'\$state = (\d+)$', l)
        if m:
            t['start'] = int(m.group(1))
    return finish(t)


def read_pwsh(script, cmdname='cmd'):
    funcs = split_functions(script, 'pwsh')
    consts = []
    res = {'subwords': {}, 'commands': command_bodies(funcs, cmdname), 'constants': consts}
    shapes, wrappers = {}, {}
    pre = '_%s_subword_' % cmdname
    for name, body in funcs:
        if name.startswith(pre + 'shape_'):
            shapes[int(name[len(pre) + 6:])] = read_pwsh_block(body, consts)
        elif name.startswith(pre) and name[len(pre):].isdigit():
            t = read_pwsh_block(body, consts)
            m = re.search(r'_%s_subword_shape_(\d+) \$args\[0\]' % re.escape(cmdname), body)
            wrappers[int(name[len(pre):])] = (t, int(m.group(1)) if m else None)
    m = re.search(r"^Register-ArgumentCompleter -Native -CommandName '([^']*)' -ScriptBlock \{\n(.*)\n\}\n\Z", script, re.S | re.M)
    if not m:
        raise ReaderError('no Register-ArgumentCompleter block')
    res['main'] = read_pwsh_block(m.group(2), consts)
    res['registration'] = ('scriptblock', m.group(1))
    for k, (t, shape) in wrappers.items():
        if shape is not None:
            merged = dict(shapes[shape])
            merged['literals'] = t['literals']
            merged['descr'] = t['descr']
            res['subwords'][k] = merged
        else:
            res['subwords'][k] = t
    return res


# ---------------------------------------------------------------------------
# bash: from the RETURN-trap dump (tables as bash itself decoded them) + text for bodies

def bash_tables_from_frame(fr, is_main):
    t = new_tables()
    lits = fr.get('literals', {})
    if isinstance(lits, dict):
        t['literals'] = [lits[k] for k in sorted(lits, key=int)]
    for name, key in (('literal_transitions', 'lit_tr'), ('command_transitions', 'cmd_tr'),
                      ('subword_transitions', 'sub_tr')):
        d = fr.get(name)
        if isinstance(d, dict):
            for st, cell in d.items():
                m = re.match(r'^\((.*)\)$', cell.strip())
                if not m:
                    raise ReaderError('bash cell %r' % cell)
                t[key][int(st)] = parse_kv(m.group(1))
    d = fr.get('star_transitions')
    if isinstance(d, dict):
        t['star_tr'] = {int(k): int(v) for k, v in d.items()}
    for name, val in fr.items():
        m = re.match(r'^(literal_transitions|commands|subword_transitions)_level_(\d+)$', name)
        if m and isinstance(val, dict):
            key = {'literal_transitions': 'comp_lit', 'commands': 'comp_cmd', 'subword_transitions': 'comp_sub'}[m.group(1)]
            t[key][int(m.group(2))] = {int(s): ints(c.split()) for s, c in val.items()}
    if 'max_fallback_level' in fr and not isinstance(fr['max_fallback_level'], dict):
        t['max_level'] = int(fr['max_fallback_level'])
    if is_main and 'state' in fr:
        t['start'] = int(fr['state'])
    return finish(t)


def read_bash_dump(script, dumps, cmdname='cmd'):
    """dumps: frames from bashrun (direct calls of every _<cmd>_subword_K, then one empty query)."""
    funcs = split_functions(script, 'bash')
    res = {'subwords': {}, 'commands': command_bodies(funcs, cmdname), 'constants': []}
    main = None
    pending_shape = None
    pre = '_%s_subword_' % cmdname
    res['declared'] = {}
    pending_names = set()
    for name, fr in dumps:
        if name.startswith(pre + 'shape_'):
            pending_names = set(fr)
        elif name.startswith(pre) and name[len(pre):].isdigit():
            res['declared'][int(name[len(pre):])] = set(fr) | pending_names
            pending_names = set()
    for name, fr in dumps:
        if name == '__query__':
            continue
        if name.startswith(pre + 'shape_'):
            pending_shape = bash_tables_from_frame(fr, False)
        elif name.startswith(pre) and name[len(pre):].isdigit():
            t = bash_tables_from_frame(fr, False)
            if pending_shape is not None and not t['lit_tr'] and not any(t['comp_lit']):
                merged = dict(pending_shape)
                merged['literals'] = t['literals']
                t = merged
            pending_shape = None
            res['subwords'][int(name[len(pre):])] = t
            res['constants'].extend(t['literals'])
        elif name == '_' + cmdname:
            main = bash_tables_from_frame(fr, True)
            res['constants'].extend(main['literals'])
    if main is None:
        raise ReaderError('main function frame missing from the dump')
    res['main'] = main
    m = re.search(r'^complete -o nospace -F (\S+) (\S+)$', script, re.M)
    res['registration'] = (m.group(1), m.group(2)) if m else None
    return res


def bash_text_constants(script):
    """String constants of every `local -a literals=(...)` line, decoded with bash's rules."""
    out = []
    for m in re.finditer(r'^    local -a literals=\((.*)\)$', script, re.M):
        out.append(decode_list('bash', m.group(1)))
    return out
