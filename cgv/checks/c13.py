"""C13 - diagnostics point at the construct they complain about."""
import random
import re

from .. import gast, gen, compile as comp
from ..gast import lit, nt, cmd, seq, alt, fb, opt, many, call, defn
from . import common, c08

PROPERTY = 'C13'
LEVEL = 'exploration'
WORKERS = 4
RULE = ('grammars with one planted located mistake or warning (undefined / unused nonterminal, unused '
        'specialisation, duplicate definition, unknown shell, varying or invalid command name, spaces inside a '
        'word incl. the reference trace, non-tail placeholder, non-command specialisation, cycle, parse error in '
        'statement k) are printed with random layout - the token lands on any line and column, after '
        'backslash-escaped literals, comments, blank lines, form feeds, inside multi-line statements - and every '
        '`<path>:<line>:<col>:` diagnostic of the real binary must name the exact start of a token of the kind '
        'the message is about (the planted token for the planted mistake), and the echoed snippet line must be '
        'that source line. non-trivial = a grammar that produced >= 1 located diagnostic; distinct by text hash')
ASSUMPTIONS = ['columns are compared in bytes = characters: everything printed is ASCII',
               'the printer records (line, column) of every token it emits']
MIN_EVALS = {'quick': 1200, 'thorough': 12000}

ESC_LITS = ['a\\;b', 'x.y', '\\<\\>', 'p|q', 'q"r', 'br[0]', 'b\\\\s', '{x}', 'dots...', 'semi;']
ESC_LITS = ['a;b', 'x.y', '<>', 'p|q', 'q"r', 'br[0]', 'b\\s', '{x}', 'dots...', 'semi;', '(par)']

LOC = re.compile(r'^(.*?):(\d+):(\d+):(error|warning)(?::\s*(.*))?$')
SNIP = re.compile(r'^\s*(\d+) \| (.*)$')


def base(r):
    g = gen.Gen(r, depth=r.choice([1, 2, 3]), ndefs=(0, r.choice([1, 3])), specs=r.random() < 0.4,
                top_lits=gen.TOP_LITS + ESC_LITS * 2, max_width=3, p_word=0.2)
    return g.grammar()


def plant_warning(r, stmts, shell):
    stmts = list(stmts)
    k = r.choice(['undefined', 'unused', 'unusedspec'])
    if k == 'undefined':
        return k, c08.attach(r, stmts, nt('UNDEFD')), ('nt', 'UNDEFD')
    if k == 'unused':
        stmts.insert(r.randint(0, len(stmts)), defn('UNUSEDD', None, alt(lit('u1'), lit('u2'))))
        return k, stmts, ('defname', 'UNUSEDD', None)
    stmts.insert(r.randint(0, len(stmts)), defn('USPEC', shell, cmd('echo u')))
    return k, stmts, ('defname', 'USPEC', shell)


def parse_diags(stderr):
    """-> list of {'line','col','sev','msg','snippets': [(lineno, text)]}"""
    out = []
    cur = None
    for l in stderr.split('\n'):
        m = LOC.match(l)
        if m and m.group(1) == '-':
            cur = {'line': int(m.group(2)), 'col': int(m.group(3)), 'sev': m.group(4), 'msg': (m.group(5) or '').strip(),
                   'snippets': [], 'labels': []}
            out.append(cur)
            continue
        if cur is not None:
            s = SNIP.match(l)
            if s:
                cur['snippets'].append((int(s.group(1)), s.group(2)))
            elif 'First one' in l or 'Second one' in l or 'where this' in l:
                cur['labels'].append(l.strip())
    return out


def expected_kinds(d):
    msg = d['msg']
    labels = ' '.join(d['labels'])
    if d['sev'] == 'warning':
        if msg.startswith('Undefined'):
            return {'nt'}
        if msg.startswith('Unused'):
            return {'defname'}
        return None
    if msg.startswith('Duplicate nonterminal') or msg.startswith('Previous definition'):
        return {'defname'}
    if msg.startswith('Unknown shell'):
        return {'shellname'}
    if msg.startswith('Varying command') or msg.startswith('Invalid command'):
        return {'cmdname'}
    if msg.startswith('Nonterminal definitions cycle'):
        return {'defname', 'nt'}
    if msg.startswith('Adjacent literals') or 'Second one' in labels:
        return {'lit'}
    if msg.startswith('Referenced in a subword'):
        return {'nt'}
    if msg.startswith('Ambiguous grammar'):
        return {'nt'}
    if 'where this begins' in labels:
        return {'lit', 'nt', 'cmd', '[', '('}
    if msg.startswith('Can only specialize'):
        return {'rhs-start'}
    if msg.startswith('Parse error'):
        return {'stmt-start'}
    return None


def check_output(text, tokens, stmt_toks, stderr, acc, meta, planted=None):
    lines = text.split('\n')
    at = {}
    for t in tokens:
        at.setdefault((t['line'], t['col']), []).append(t)
    stmt_starts = {(t['line'], t['col']) for t in stmt_toks}
    rhs_starts = set()
    for i, t in enumerate(tokens):
        if t['kind'] == '=' and i + 1 < len(tokens):
            n = tokens[i + 1]
            rhs_starts.add((n['line'], n['col']))
    shell_starts = {}
    for t in tokens:
        if t['kind'] == 'defname' and t['payload'][2] is not None:
            shell_starts[(t['line'], t['col'] + 1 + len(t['payload'][1]) + 1)] = t
    diags = parse_diags(stderr)
    ok = True
    hit_planted = False
    for d in diags:
        acc.count('located_diagnostics')
        acc.count('diag: ' + (d['msg'] or ' '.join(d['labels']))[:40])
        kinds = expected_kinds(d)
        pos = (d['line'], d['col'])
        here = at.get(pos, [])
        problem = None
        if kinds is None:
            acc.count('diagnostics_of_unknown_kind')
        elif 'stmt-start' in kinds:
            if pos not in stmt_starts:
                problem = 'not the start of a statement'
        elif 'rhs-start' in kinds:
            if pos not in rhs_starts:
                problem = 'not the start of a right-hand side'
        elif 'shellname' in kinds:
            if pos not in shell_starts:
                problem = 'not the start of a shell name'
        else:
            if not any(t['kind'] in kinds for t in here):
                problem = 'no %s token starts there (found: %s)' % ('/'.join(sorted(kinds)), [t['kind'] for t in here])
        if problem is None and planted is not None and planted.get('msg') and d['msg'] == planted['msg']:
            if pos == planted['pos']:
                hit_planted = True
        if problem is None:
            for ln, src in d['snippets'][:1]:
                want = lines[ln - 1].rstrip('\r').rstrip() if ln - 1 < len(lines) else None
                # a construct continuing on the next line is drawn with a '/' gutter mark
                shown = src.rstrip()
                if shown != want and shown[:2] in ('/ ', '| ') and shown[2:] == want:
                    shown = want
                if shown != want and shown in ('/', '|') and want == '':
                    shown = want
                if ln != d['line'] or shown != want:
                    problem = 'snippet shows line %d %r, source line %d is %r' % (
                        ln, src[:80], d['line'], lines[d['line'] - 1][:80] if d['line'] - 1 < len(lines) else None)
        if problem:
            ok = False
            acc.violation({'sig': 'location:' + (d['msg'] or ' '.join(d['labels']))[:40], 'grammar': text,
                           'what': problem, 'observed': '%d:%d %s %s' % (d['line'], d['col'], d['sev'], d['msg']),
                           'expected': planted, 'meta': meta, 'tokens': slim(tokens), 'stmt_toks': slim(stmt_toks)})
            break
    if planted is not None and planted.get('strict') and ok and not hit_planted:
        acc.violation({'sig': 'planted-diagnostic-missing:' + planted['msg'][:30], 'grammar': text,
                       'expected': planted, 'observed': [(d['line'], d['col'], d['msg']) for d in diags][:8],
                       'meta': meta, 'tokens': slim(tokens), 'stmt_toks': slim(stmt_toks)})
        ok = False
    return ok, len(diags)


def slim(tokens):
    out = []
    for t in tokens:
        p = t['payload']
        out.append({'kind': t['kind'], 'line': t['line'], 'col': t['col'], 'off': t['off'], 'end': t['end'],
                    'end_line': t['end_line'], 'payload': [p[0], p[1], p[2] if len(p) > 2 and not isinstance(p[2], tuple) else None]})
    return out


def token_pos(tokens, pred):
    for t in tokens:
        if pred(t):
            return (t['line'], t['col'])
    return None


def planted_error_positions(kind, tokens, stmt_toks):
    """Exact (message prefix, (line, col)) pairs the planted mistake of c08.plant must produce."""
    def first(pred, nth=0):
        hits = [t for t in tokens if pred(t)]
        return (hits[nth]['line'], hits[nth]['col']) if len(hits) > nth else None
    if kind == 'duplicate':
        d = lambda t: t['kind'] == 'defname' and t['payload'][1] == 'DUP'
        return [('Duplicate nonterminal definition', first(d, 1)), ('Previous definition', first(d, 0))]
    if kind == 'unknownshell':
        t = [t for t in tokens if t['kind'] == 'defname' and t['payload'][1] == 'KSH']
        if t:
            return [('Unknown shell', (t[0]['line'], t[0]['col'] + 1 + len('KSH') + 1))]
    if kind == 'slash':
        return [('Invalid command name', first(lambda t: t['kind'] == 'cmdname'))]
    if kind == 'noncmdspec':
        for i, t in enumerate(tokens):
            if t['kind'] == 'defname' and t['payload'][1] == 'NCS':
                for u in tokens[i + 1:]:
                    if u['kind'] == '=':
                        j = tokens.index(u)
                        n = tokens[j + 1]
                        return [('Can only specialize external commands', (n['line'], n['col']))]
    if kind == 'spaces':
        return [('Adjacent literals', first(lambda t: t['kind'] == 'lit' and t['payload'][1] == 'pa')),
                ('Second one', first(lambda t: t['kind'] == 'lit' and t['payload'][1] == 'pb'))]
    if kind == 'nontail':
        return [('Ambiguous grammar', first(lambda t: t['kind'] == 'nt' and t['payload'][1] == 'PU'))]
    return []


def make_jobs(tier, seed):
    k = 48 if tier == 'quick' else 400
    return [('j', seed * 1000003 + i, 60) for i in range(k)]


def run_job(job, acc):
    _, s, n = job
    r = random.Random(s)
    for i in range(n):
        shell = r.choice(common.SHELLS)
        b = base(r)
        mode = r.random()
        planted = None
        label = 'clean'
        if mode < 0.35:
            kind, stmts, what = plant_warning(r, b, shell)
            label = 'warning:' + kind
        elif mode < 0.8:
            kind, stmts, exp = c08.plant(r, b, shell)
            label = 'error:' + kind
        elif mode < 0.95:
            stmts = list(b)
            label = 'parse-error'
        else:
            stmts = list(b)
        lay = r if r.random() < 0.8 else None
        text, tokens, stmt_toks = gast.print_grammar(stmts, layout=lay)
        if label.startswith('warning:'):
            if what[0] == 'nt':
                pos = token_pos(tokens, lambda t: t['kind'] == 'nt' and t['payload'][1] == what[1])
                planted = {'msg': 'Undefined', 'pos': pos, 'strict': True}
            else:
                pos = token_pos(tokens, lambda t: t['kind'] == 'defname' and t['payload'][1] == what[1])
                planted = {'msg': 'Unused' if what[2] is None else 'Unused specialization', 'pos': pos, 'strict': True}
        if label == 'parse-error':
            # corrupt statement k so that it cannot be parsed: an unmatched ')' after its first token
            k = r.randrange(len(stmt_toks))
            st = stmt_toks[k]
            data = text.encode('utf-8')
            ins = r.choice([b' )', b' ]', b' | |', b' "', b' \\q'])
            data = data[:st['end']] + ins + data[st['end']:]
            shift = len(ins)
            text = data.decode('utf-8')
            for t in tokens:
                if t['off'] >= st['end'] and t['line'] == st['end_line']:
                    t['col'] += shift
            planted = {'msg': 'Parse error', 'pos': (st['line'], st['col']), 'strict': True}
        must = []
        if label.startswith('error:') and exp:
            must = planted_error_positions(kind, tokens, stmt_toks)
        rc, out, err = comp.compile_text(text, shell)
        acc.evals += 1
        acc.count('runs_' + label)
        if rc is None:
            acc.inconclusive.append('timeout')
            continue
        ok, nd = check_output(text, tokens, stmt_toks, err.decode('utf-8', 'replace'), acc,
                              {'shell': shell, 'label': label, 'seed': s, 'i': i}, planted)
        if ok and must and rc == 1:
            diags = parse_diags(err.decode('utf-8', 'replace'))
            have = {(d['msg'] or ' '.join(d['labels']), (d['line'], d['col'])) for d in diags}
            for msg, pos in must:
                if pos is None:
                    continue
                if not any(msg in m and q == pos for m, q in have):
                    ok = False
                    acc.violation({'sig': 'planted-error-location:' + msg[:30], 'grammar': text,
                                   'what': 'no %r diagnostic at the planted construct %s' % (msg, pos),
                                   'expected': {'msg': msg, 'pos': pos},
                                   'observed': sorted((q, m) for m, q in have)[:8],
                                   'meta': {'shell': shell, 'label': label, 'seed': s, 'i': i},
                                   'tokens': slim(tokens), 'stmt_toks': slim(stmt_toks)})
                    break
                acc.count('planted_error_locations_confirmed')
            if ok and kind == 'spaces':
                # the reference trace: every "Referenced in a subword context" note must point at a reference on
                # the way from a call variant to the space-separated literals (a nonterminal whose definition,
                # directly or through others, contains them); which of those the compiler lists is its business
                bodies = {st[1]: st[3] for st in stmts if st[0] == 'def' and st[2] is None}
                reach = {}

                def reaches(name, stack=()):
                    if name in reach:
                        return reach[name]
                    if name in stack or name not in bodies:
                        return False
                    v = False
                    for x in gast.walk(bodies[name]):
                        if x[0] == 'lit' and x[1] == 'pb':
                            v = True
                        elif x[0] == 'nt' and reaches(x[1], stack + (name,)):
                            v = True
                    reach[name] = v
                    return v
                acc.count('reference_traces_compared')
                for d in diags:
                    if not d['msg'].startswith('Referenced in a subword'):
                        continue
                    here = [t for t in tokens if (t['line'], t['col']) == (d['line'], d['col']) and t['kind'] == 'nt']
                    if not here or not reaches(here[0]['payload'][1]):
                        ok = False
                        acc.violation({'sig': 'reference-trace-points-elsewhere', 'grammar': text,
                                       'what': 'a "Referenced in a subword context" note points at %d:%d (%s), which is '
                                               'not a reference through which the space-separated literals are reached'
                                               % (d['line'], d['col'], here[0]['payload'][1] if here else 'no reference'),
                                       'observed': '%d:%d' % (d['line'], d['col']),
                                       'meta': {'shell': shell, 'label': label, 'seed': s, 'i': i},
                                       'tokens': slim(tokens), 'stmt_toks': slim(stmt_toks)})
                        break
        if nd:
            acc.seen(text)
            if lay is not None and text.count('\n') > 2:
                acc.count('multi_line_grammars_with_diagnostics')
        if ok and nd:
            acc.sample({'label': label, 'grammar': text[:400], 'first': err.decode('utf-8', 'replace').split('\n')[0]})


def replay(w, acc):
    rc, out, err = comp.compile_text(w['grammar'], w['meta']['shell'])
    print(err.decode('utf-8', 'replace')[:2000])
    print('expected', w.get('expected'), 'problem', w.get('what'))
    acc.evals += 1
    planted = w.get('expected')
    if planted and planted.get('pos'):
        planted['pos'] = tuple(planted['pos'])
    check_output(w['grammar'], w['tokens'], w['stmt_toks'], err.decode('utf-8', 'replace'), acc, w['meta'], planted)
