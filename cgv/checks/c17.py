"""C17 - external commands run only when expected, with the documented arguments/output."""
import os
import random
import shutil

from .. import gast, gen, refrun, bashrun, compile as comp
from . import common, c01

PROPERTY = 'C17'
LEVEL = 'exploration'
WORKERS = 3
RULE = ('grammars with probe commands `__p <id> "$1" "$2"` at top level, inside words after a literal prefix, under '
        '[], ..., | and ||, and through (shell-specific) definitions are compiled by the real binary and run in a real '
        'bash; every probe appends (id, $1, $2) to an invocation log and prints its fixed lines (candidates with '
        'spaces, tab-separated descriptions, prefix chains, one equal to a grammar literal). Per command line an '
        'offline checker reads the log: every invocation belongs to a command expected at a reference state on '
        'the walk; arguments are ("","") while matching, (typed prefix, "") when completing at top level, '
        '(unmatched remainder, matched part) inside a word; a command whose candidates the reference offers was '
        'invoked with exactly those arguments; and COMPREPLY equals the reference answer (text before the first '
        'tab of the lines extending the typed text; a complete word advances iff it equals a candidate). '
        'non-trivial = command line on which >= 1 invocation was logged; distinct by (grammar, words)')
RULE += ' ' + 'Family: two to four different words each with a command of its own inside (local and script-wide command numbers differ).'
ASSUMPTIONS = ['bash 5.2; commands are bash functions defined by the harness, called through the emitted _<cmd>_cmd_N wrappers',
               'reference interpreter cgv/refrun.py; KF-A (stale state) is recognised by exact signature as in C01']
MIN_EVALS = {'quick': 500, 'thorough': 5000}


class ProbeLedger:
    def __init__(self):
        self.outputs = {}
        self.ids = {}
        self.lit_equal_used = False

    def factory(self, r, i, in_word=False):
        text = '__p %d "$1" "$2"' % i
        if in_word:
            n = r.randint(1, 3)
            lines = ['k%d%s' % (i, ch) for ch in 'xyz'[:n]]
            if r.random() < 0.4:
                lines[0] += '\tabout it'
        else:
            lines = []
            pool = ['k%da' % i, 'k%dab' % i, 'k%d b c' % i, 'k%d-x' % i, 'k%dq\tdescribed' % i, 'k%d y\twith space' % i]
            for l in r.sample(pool, r.randint(1, 4)):
                lines.append(l)
            if not self.lit_equal_used and r.random() < 0.3:
                lines.append(r.choice(['foo', 'bar', 'add']))
                self.lit_equal_used = True
        self.outputs[text] = lines
        self.ids[text] = i
        return text

    def setup(self, log):
        out = ['CGV_LOG=%s\n' % bashrun.bash_quote(log), '__p () {\n',
               '    printf \'%s\\t%s\\t%s\\n\' "$1" "$2" "$3" >> "$CGV_LOG"\n', '    case $1 in\n']
        for text, lines in self.outputs.items():
            out.append('    %d) printf \'%%s\\n\' %s;;\n' % (self.ids[text], ' '.join(bashrun.bash_quote(l) for l in lines)))
        out.append('    esac\n}\n')
        return ''.join(out)


def profile_grammar(r, ledger):
    g = gen.Gen(r, depth=r.choice([2, 3, 3]), ndefs=(0, r.choice([2, 4])), fallbacks=r.choice([0.1, 0.25]),
                p_word=0.3, cmd_factory=ledger.factory, max_width=3, stars=r.random() < 0.5, descs=False,
                specs=False)
    # bias towards commands: rewrite some literal leaves into commands
    stmts = g.grammar()
    if g.ncmd == 0:
        stmts.append(gast.call('cmd', gast.seq(gast.lit('withcmd'), g.new_cmd(), gast.lit('after'))))
    if r.random() < 0.6:
        nm = 'BSPEC'
        stmts.append(gast.defn(nm, 'bash', g.new_cmd()))
        if r.random() < 0.5:
            stmts.append(gast.defn(nm, 'fish', gast.cmd('echo fishy')))
        if r.random() < 0.5:
            # a plain command definition next to the bash-specific one: the bash one must be what runs
            stmts.append(gast.defn(nm, None, g.new_cmd()))
        ref = gast.nt(nm)
        where = r.random()
        if where < 0.3:
            ref = gast.fb(ref, gast.lit('zzz'))
        elif where < 0.45:
            ref = gast.fb(gast.lit('zzz'), ref)
        elif where < 0.6:
            ref = gast.many(gast.alt(gast.lit('more'), ref))
        elif where < 0.7:
            ref = gast.opt(ref)
        stmts.append(gast.call('cmd', gast.seq(gast.lit('spec'), ref, gast.opt(gast.lit('tail')))))
    return stmts


def scoping_family(r, ledger):
    """A top-level command, a word that contains a command and a word that contains none; leading literals shift
    the state numbers so that nested and top-level numbers coincide in some variants."""
    lead = [gast.lit(x) for x in r.sample(['run', 'go', 'now', 'pls'], r.randint(0, 3))]
    top = gast.seq(*(lead + [ledger_cmd(ledger, r, False)])) if lead else ledger_cmd(ledger, r, False)
    w_cmd = ('word', (gast.lit('--a='), ledger_cmd(ledger, r, True)))
    vals = r.sample(['foo', 'bar', 'qux', 'zed'], r.randint(2, 3))
    w_plain = ('word', (gast.lit('--b='), gast.alt(*[gast.lit(v) for v in vals])))
    stmts = [gast.call('cmd', top), gast.call('cmd', w_cmd), gast.call('cmd', gast.seq(w_plain, gast.lit('fin')))]
    if r.random() < 0.5:
        stmts.append(gast.call('cmd', gast.seq(gast.lit('also'), ('word', (gast.lit('--c='), gast.nt('ANYTHING'))))))
    r.shuffle(stmts)
    extra = [['--b=alpha', ''], ['--b=al'], ['--b=' + vals[0] + 'x', ''], ['--b=', ''], ['--b=' + vals[0], ''],
             ['--a=zz', ''], ['--a=k'], ['--b=k'], ['--c=k', '']]
    return stmts, extra


def several_word_commands_family(r, ledger):
    """Two to four different words, each with a command of its own inside (plus, sometimes, a top-level command
    and a second command in the same word): the command run inside a word must be that word's own, whatever
    number it has in the script as a whole."""
    n = r.randint(2, 4)
    pres = r.sample(['--user=', '--host=', '--port=', 'key:', '-D'], n)
    words, extra = [], []
    for pre in pres:
        c = ledger_cmd(ledger, r, True)
        inner = c
        if r.random() < 0.3:
            inner = gast.alt(c, gast.lit('fixed'))
        elif r.random() < 0.2:
            inner = gast.alt(c, ledger_cmd(ledger, r, True))
        words.append(('word', (gast.lit(pre), inner)))
        cand = ledger.outputs[c[1]][0].split('\t')[0]
        extra += [[pre], [pre + cand[:1]], [pre + cand, ''], [pre + 'zz', '']]
    body = gast.alt(*words)
    tail = gast.alt(gast.lit('start'), gast.lit('stop'))
    stmts = [gast.call('cmd', gast.seq(body, tail))]
    if r.random() < 0.5:
        stmts.append(gast.call('cmd', gast.seq(gast.lit('top'), ledger_cmd(ledger, r, False), gast.lit('end'))))
        extra += [['top', ''], ['top', 'k']]
    r.shuffle(stmts)
    r.shuffle(extra)
    return stmts, extra[:14]


def loop_to_start_family(r, ledger):
    """A command whose transition leads back to the start state: it closes an optional repeated group at the very
    beginning of the grammar (also as the only item of the group, and inside a word)."""
    c = ledger_cmd(ledger, r, False)
    cand = ledger.outputs[c[1]][0].split('\t')[0]
    k = r.random()
    if k < 0.4:
        grp = gast.alt(gast.seq(gast.lit('--file'), c), gast.lit('--verbose'))
        lead = ['--file']
    elif k < 0.7:
        grp = gast.alt(c, gast.lit('--verbose'))
        lead = []
    else:
        grp = gast.alt(gast.seq(gast.lit('-f'), gast.lit('x'), c), gast.lit('-v'))
        lead = ['-f', 'x']
    e = gast.seq(gast.opt(gast.many(grp)), gast.lit('end'))
    stmts = [gast.call('cmd', e)]
    extra = [lead + [cand, ''], lead + [cand] + lead + [cand[:1]], lead + [cand] + lead + [cand, 'e'],
             lead + [cand, 'end', ''], lead + ['zzz', '']]
    return stmts, extra


def inword_chain_case(r, acc, origin):
    """Commands inside a word whose candidates include a prefix chain (v1 / v1.0): the longest candidate must be
    consumed; only the maximal candidates are judged (a shorter one that is a prefix of a longer one is the
    command analogue of finding KF-D and is recorded, not judged)."""
    base = r.choice(['v1', 'r2', 'ab'])
    tags = [base, base + r.choice(['.0', '-rc', 'x']), r.choice(['main', 'dev'])]
    refs = ['HEAD', r.choice(['v2', 'tip'])]
    r.shuffle(tags)
    ledger = ProbeLedger()
    t0, t1 = '__p 0 "$1" "$2"', '__p 1 "$1" "$2"'
    ledger.outputs = {t0: tags, t1: refs}
    ledger.ids = {t0: 0, t1: 1}
    sep = r.choice(['..', ':', '/'])
    stmts = [gast.call('cmd', gast.seq(('word', (gast.lit('--from='), gast.cmd(t0))), gast.lit('next'))),
             gast.call('cmd', gast.seq(gast.lit('diff'), ('word', (gast.cmd(t0), gast.lit(sep), gast.cmd(t1)))))]
    text, _, _ = gast.print_grammar(stmts)
    rc, out, err = comp.compile_text(text, 'bash')
    if rc != 0:
        acc.count('not_accepted')
        return
    longest = max(tags, key=len) if any(t != base and t.startswith(base) for t in tags) else tags[0]
    other = [t for t in tags if not t.startswith(base)][0]
    cases = [
        (['--from=' + longest, ''], {'next'}, None),
        (['--from=' + other, ''], {'next'}, None),
        (['diff', longest + sep], {longest + sep + x for x in refs}, ('1', '', longest + sep)),
        (['diff', longest + sep + refs[0][:1]], {longest + sep + refs[0]}, ('1', refs[0][:1], longest + sep)),
        (['--from=' + other[:1]], {'--from=' + other}, ('0', other[:1], '--from=')),
        (['diff', other + sep + refs[1], ''], set(), None),
    ]
    queries = [{'words': ['cmd'] + w, 'cword': len(w), 'wb': ''} for (w, e, l) in cases]
    logdir = bashrun.make_workdir('c17log')
    try:
        log = os.path.join(logdir, 'log.tsv')
        res = bashrun.run_session(out.decode('utf-8'), 'cmd', queries, setup=ledger.setup(log),
                                  pre_query="printf 'Q\\t{i}\\n' >> \"$CGV_LOG\"")
        per = parse_log(log)
    finally:
        shutil.rmtree(logdir, ignore_errors=True)
    if res['timed_out'] or res['source_rc'] != 0:
        acc.inconclusive.append('bash session failed: %s' % res['stderr'][:300])
        return
    for qi, ((w, exp, need), ob) in enumerate(zip(cases, res['results'])):
        if ob is None:
            continue
        acc.evals += 1
        acc.count('inword_prefix_chain_queries')
        obs = {c[:-1] if c.endswith(' ') else c for c in ob['reply']}
        inv = per.get(qi, [])
        if inv:
            acc.seen((text, w))
        wit = {'grammar': text, 'shell': 'bash', 'query': {'words': ['cmd'] + w, 'cword': len(w), 'wordbreaks': ''},
               'stmts': stmts, 'outputs': ledger.outputs, 'ids': ledger.ids, 'origin': origin, 'log': inv[:10]}
        if obs != exp:
            acc.violation(dict(wit, sig='candidates-from-commands-differ', expected=sorted(exp), observed=sorted(obs), rc=ob['rc']))
        elif need is not None and need not in inv:
            acc.violation(dict(wit, sig='expected-invocation-missing', expected=list(need), observed=inv[:10]))


def ledger_cmd(ledger, r, in_word):
    i = len(ledger.outputs)
    return gast.cmd(ledger.factory(r, i, in_word))


def parse_log(path):
    per = {}
    cur = None
    try:
        with open(path, 'rb') as f:
            data = f.read().decode('utf-8', 'replace')
    except FileNotFoundError:
        return per
    for line in data.split('\n'):
        if not line:
            continue
        f = line.split('\t')
        if f[0] == 'Q':
            cur = int(f[1])
            per[cur] = []
        elif cur is not None and len(f) >= 3:
            per[cur].append((f[0], f[1], f[2]))
    return per


def allowed_ids(M, ledger, states):
    out = set()
    for q in states:
        for sym in M.row(q):
            if sym[0] in 'CA':
                out.add(str(ledger.ids.get(sym[1])))
            elif sym[0] == 'S':
                N = M.nested_dfa(sym[1])
                for r2 in N['delta'].values():
                    for s2 in r2:
                        if s2[0] in 'CA':
                            out.add(str(ledger.ids.get(s2[1])))
    return out


def required_invocations(M, ledger, ref, prefix):
    """(id, $1, $2) that must be in the log when the reference offers / considers a command at the final state."""
    need = []
    q = ref['state']
    row = M.row(q)
    lv_won = ref['level']
    for sym in row:
        if sym[0] in 'CA':
            if lv_won is None or sym[2] <= lv_won:
                need.append((str(ledger.ids[sym[1]]), prefix, ''))
        elif sym[0] == 'S' and (lv_won is None or sym[2] <= lv_won):
            N = M.nested_dfa(sym[1])
            s, i, st = M.nested_walk(N, prefix)
            if st == 'stuck' and i < len(prefix) and not any(
                    s2[0] in 'CA' for s2 in N['delta'].get(s, {})):
                continue
            for s2 in N['delta'].get(s, {}):
                if s2[0] in 'CA':
                    inner_levels = sorted({x[-1] for x in N['delta'].get(s, {}) if x[0] != '*'})
                    need.append((str(ledger.ids[s2[1]]), prefix[i:], prefix[:i], 'inword'))
    return need


def check_grammar(stmts, ledger, r, budget, acc, origin, extra_words=None):
    text, _, _ = gast.print_grammar(stmts)
    rc, out, err = comp.compile_text(text, 'bash')
    if rc != 0:
        acc.count('not_accepted')
        return
    M = refrun.Machine(stmts, ledger.outputs, 'bash')
    ex = M.exclusions()
    if ex:
        acc.count('grammars_in_C09_C12_region')
        return
    vocab = sorted({x[1] for st in stmts for x in gast.walk(st[2] if st[0] == 'call' else st[3]) if x[0] == 'lit'})
    queries = c01.make_queries(M, r, budget, vocab)
    # glob-looking words at command points
    extra = []
    for q in queries[:6]:
        w = list(q['words'][1:])
        if len(w) >= 2:
            i = r.randrange(len(w) - 1)
            w[i] = r.choice(['k*', '?' * len(w[i]), w[i][:1] + '*', '[a-z]*', w[i] + '*'])
            extra.append({'words': ['cmd'] + w, 'cword': len(w), 'wb': q['wb']})
    queries = (queries + extra)[:budget + 6]
    for w in (extra_words or []):
        queries.append({'words': ['cmd'] + w, 'cword': len(w), 'wb': ''})
    if not queries:
        return
    logdir = bashrun.make_workdir('c17log')
    try:
        log = os.path.join(logdir, 'log.tsv')
        res = bashrun.run_session(out.decode('utf-8'), 'cmd', queries, setup=ledger.setup(log),
                                  pre_query="printf 'Q\\t{i}\\n' >> \"$CGV_LOG\"")
        per = parse_log(log)
    finally:
        shutil.rmtree(logdir, ignore_errors=True)
    if res['timed_out'] or res['source_rc'] != 0:
        acc.inconclusive.append('bash session failed: %s' % res['stderr'][:300])
        return
    acc.count('grammars_run')
    for qi, (q, ob) in enumerate(zip(queries, res['results'])):
        if ob is None:
            acc.inconclusive.append('no answer')
            continue
        acc.evals += 1
        words = q['words'][1:]
        ref = M.run(words)
        exp = refrun.strip_wordbreaks(ref['expected'], words[-1], q['wb'])
        obs = {c[:-1] if c.endswith(' ') else c for c in ob['reply']}
        inv = per.get(qi, [])
        acc.count('invocations_logged', len(inv))
        if inv:
            acc.seen((text, words))
        base = {'grammar': text, 'shell': 'bash', 'query': {'words': q['words'], 'cword': q['cword'], 'wordbreaks': q['wb']},
                'stmts': stmts, 'outputs': ledger.outputs, 'ids': ledger.ids, 'origin': origin, 'log': inv[:20]}
        if obs != exp:
            sig = c01.classify(M, words, obs, q['wb'])
            w = dict(base)
            w.update({'sig': sig if sig.startswith('known') else 'candidates-from-commands-differ',
                      'expected': sorted(exp), 'observed': sorted(obs), 'rc': ob['rc']})
            acc.violation(w)
            continue
        # (1) never run where the grammar does not expect it
        states = list(ref['trace'])
        ok_ids = allowed_ids(M, ledger, states)
        bad = [x for x in inv if x[0] not in ok_ids]
        if bad:
            w = dict(base)
            w.update({'sig': 'command-run-where-not-expected', 'observed': bad[:5], 'expected': sorted(ok_ids)})
            acc.violation(w)
            continue
        # (2) arguments
        prefix = words[-1]
        argbad = []
        for (cid, a1, a2) in inv:
            if (a1, a2) == ('', ''):
                acc.count('args_match_time_empty')
                continue
            if a2 == '' and a1 == prefix:
                acc.count('args_completion_top_level')
                continue
            if a2 != '' and any(a2 + a1 == wd for wd in words):
                acc.count('args_within_word')
                continue
            if a2 == '' and any(a1 == wd for wd in words):
                acc.count('args_within_word')
                continue
            argbad.append((cid, a1, a2))
        if argbad:
            w = dict(base)
            w.update({'sig': 'unexpected-arguments', 'observed': argbad[:5],
                      'expected': '("",""), (typed prefix,""), or (remainder, matched part) of a word'})
            acc.violation(w)
            continue
        # (2b) a command the reference considers at the final state was invoked with the documented arguments
        if ref['matched']:
            for need in required_invocations(M, ledger, ref, prefix):
                if need[:3] not in inv:
                    if len(need) == 4:
                        acc.count('inword_required_not_found')   # coarse model of inner levels: recorded only
                        continue
                    w = dict(base)
                    w.update({'sig': 'expected-invocation-missing', 'expected': list(need[:3]), 'observed': inv[:10]})
                    acc.violation(w)
                    break
                else:
                    acc.count('required_invocations_found')
    acc.sample({'grammar': text, 'queries': len(queries), 'example_log': per.get(0, [])[:3]})


def make_jobs(tier, seed):
    n = 40 if tier == 'quick' else 400
    return [('rand', seed * 1000003 + i, 26 if tier == 'quick' else 34) for i in range(n)]


def run_job(job, acc):
    _, s, budget = job
    r = random.Random(s)
    ledger = ProbeLedger()
    if s % 7 == 3:
        inword_chain_case(r, acc, 'in-word prefix chain seed=%d' % s)
        return
    if s % 10 == 2:
        stmts, extra = loop_to_start_family(r, ledger)
        acc.count('loop_to_start_grammars')
        check_grammar(stmts, ledger, r, max(6, budget // 3), acc, 'command leading back to the start state seed=%d' % s, extra)
        return
    if s % 5 == 1:
        stmts, extra = several_word_commands_family(r, ledger)
        acc.count('several_word_commands_grammars')
        check_grammar(stmts, ledger, r, max(6, budget // 3), acc, 'several words with commands seed=%d' % s, extra)
        return
    if s % 5 == 0:
        stmts, extra = scoping_family(r, ledger)
        check_grammar(stmts, ledger, r, max(6, budget // 3), acc, 'scoping family seed=%d' % s, extra)
        return
    stmts = profile_grammar(r, ledger)
    check_grammar(stmts, ledger, r, budget, acc, 'seed=%d' % s)


def replay(w, acc):
    from .c02 import tuplify
    stmts = [tuplify(s) for s in w['stmts']]
    ledger = ProbeLedger()
    ledger.outputs = w['outputs']
    ledger.ids = w['ids']
    rc, out, err = comp.compile_text(w['grammar'], 'bash')
    M = refrun.Machine(stmts, ledger.outputs, 'bash')
    q = {'words': w['query']['words'], 'cword': w['query']['cword'], 'wb': w['query']['wordbreaks']}
    logdir = bashrun.make_workdir('c17log')
    try:
        log = os.path.join(logdir, 'log.tsv')
        res = bashrun.run_session(out.decode(), 'cmd', [q], setup=ledger.setup(log),
                                  pre_query="printf 'Q\\t{i}\\n' >> \"$CGV_LOG\"")
        per = parse_log(log)
    finally:
        shutil.rmtree(logdir, ignore_errors=True)
    ob = res['results'][0]
    words = q['words'][1:]
    ref = M.run(words)
    exp = refrun.strip_wordbreaks(ref['expected'], words[-1], q['wb'])
    obs = {c[:-1] if c.endswith(' ') else c for c in ob['reply']}
    print('expected', sorted(exp), 'observed', sorted(obs), 'log', per.get(0))
    acc.evals += 1
    if obs != exp:
        acc.violation({'sig': w['sig'], 'grammar': w['grammar'], 'expected': sorted(exp), 'observed': sorted(obs)})
