"""C01 - bash completions produced by the emitted script equal the grammar's meaning."""
import random

from .. import gast, gen, refsem, refrun, bashrun, compile as comp
from . import common

PROPERTY = 'C01'
LEVEL = 'exploration'
RULE = ('accepted grammars from the C01 profile (sequence, |, ||, [], ..., within-word expressions with '
        'prefix-free items, definitions in any order, descriptions, {{{printf}}} commands with fixed output, '
        'undefined nonterminals; plus dedicated families: one definition shared by `||` branches of different index, one literal text expected at several points with different descriptions, the same text with and without description inside one word) are compiled by the real binary, the script is sourced in a real bash with '
        'a 3-line _get_comp_words_by_ref stub, and for every query (walk over the reference automaton, '
        'perturbed by a foreign word / near miss / swap / deletion; cursor word = empty, every prefix of every '
        'item expected there, prefixes of items not expected, foreign text; COMP_WORDBREAKS default or empty) '
        'COMPREPLY as a set must equal the reference interpreter\'s answer. grammars in the regions the '
        'quantifier hands to C09/C12 are counted and skipped. non-trivial = the walk consumed >= 1 word or '
        'the expected set is non-empty; distinct by hash of (grammar, words, wordbreaks)')
ASSUMPTIONS = ['bash 5.2 non-interactive, completion-ignore-case off, _get_comp_words_by_ref stubbed (words are not split)',
               'candidate order, duplicates, one trailing space and the return code are not judged',
               'reference interpreter cgv/refrun.py']
MIN_EVALS = {'quick': 600, 'thorough': 6000}
FOREIGN = ['zzz', 'q', 'nope', '--zz', 'a1']


class CmdLedger:
    """Commands are printf calls with known output; candidates unique per command."""

    def __init__(self):
        self.outputs = {}

    def factory(self, r, i, in_word=False):
        n = r.randint(1, 4)
        cands = ['k%d%s' % (i, ch) for ch in 'abcd'[:n]]
        lines = []
        for c in cands:
            if r.random() < 0.3:
                lines.append(c + '\tabout ' + c)
            else:
                lines.append(c)
        if r.random() < 0.5:
            text = "printf '%s\\n' " + ' '.join("'%s'" % l.replace('\t', "'$'\\t''") for l in lines)
        else:
            text = 'printf ' + "'" + ''.join(l.replace('\t', '\\t') + '\\n' for l in lines) + "'"
        self.outputs[text] = lines
        return text


def profile_grammar(r, ledger):
    g = gen.Gen(r, depth=r.choice([2, 3, 3, 4]), ndefs=(0, r.choice([2, 4, 6])),
                fallbacks=r.choice([0.1, 0.2, 0.3]), p_word=r.choice([0.15, 0.3]),
                cmd_factory=ledger.factory, max_width=r.choice([2, 3, 4]))
    return g.grammar()


def sample_word(M, sym, r):
    """A concrete word for a reference symbol."""
    k = sym[0]
    if k == 'L':
        return sym[1]
    if k in 'CA':
        c = M.cands(sym[1])
        return r.choice(c) if c else None
    if k == '*':
        return r.choice(FOREIGN)
    if k == 'S':
        N = M.nested_dfa(sym[1])
        s = N['start']
        out = ''
        for _ in range(12):
            row = N['delta'].get(s, {})
            if s in N['acc'] and (not row or r.random() < 0.5):
                return out
            if not row:
                return None
            sy = r.choice(sorted(row, key=repr))
            if sy[0] == 'L':
                out += sy[1]
            elif sy[0] in 'CA':
                c = M.cands(sy[1])
                if not c:
                    return None
                out += r.choice(c)
            else:
                out += r.choice(['v9', 'x.y', 'foo'])
            s = row[sy]
        return out if s in N['acc'] else None
    return None


def item_texts(M, q, r):
    """Full texts of everything expected at q (for prefix generation)."""
    out = []
    for sym in M.row(q):
        if sym[0] == 'L':
            out.append(sym[1])
        elif sym[0] in 'CA':
            out.extend(M.cands(sym[1]))
        elif sym[0] == 'S':
            for _ in range(3):
                w = sample_word(M, sym, r)
                if w:
                    out.append(w)
    return out


def make_queries(M, r, budget, vocab):
    qs = []
    seen = set()
    wbs = [bashrun.wordbreaks(), '']

    def add(words):
        key = tuple(words)
        for wb in (wbs if r.random() < 0.25 else [r.choice(wbs)]):
            if (key, wb) in seen:
                continue
            seen.add((key, wb))
            qs.append({'words': ['cmd'] + list(words), 'cword': len(words), 'wb': wb})

    tries = 0
    while len(qs) < budget and tries < budget * 3:
        tries += 1
        q = M.dfa['start']
        walk = []
        for _ in range(r.choice([0, 1, 1, 2, 2, 3, 4, 6])):
            row = M.row(q)
            if not row:
                break
            sym = r.choice(sorted(row, key=repr))
            w = sample_word(M, sym, r)
            if w is None or w == '':
                break
            walk.append(w)
            q = row[sym]
        cursors = ['']
        items = item_texts(M, q, r)
        for t in items:
            k = r.choice([1, len(t), r.randint(1, max(1, len(t)))])
            cursors.append(t[:k])
            if r.random() < 0.3:
                for j in range(1, len(t) + 1):
                    cursors.append(t[:j])
        if vocab:
            v = r.choice(vocab)
            cursors.append(v[:r.randint(1, len(v))])
        cursors.append(r.choice(FOREIGN))
        r.shuffle(cursors)
        for c in cursors[:r.choice([2, 4, 8])]:
            add(walk + [c])
        if walk and r.random() < 0.6:
            w2 = list(walk)
            i = r.randrange(len(w2))
            kind = r.random()
            cut = [p for p in gen.WORD_PREFIXES if w2[i].startswith(p) and w2[i] != p]
            if cut and r.random() < 0.5:
                w2[i] = cut[0]          # stop at an item boundary inside a word
            elif kind < 0.3:
                w2[i] = r.choice(FOREIGN)
            elif kind < 0.55:
                w2[i] = w2[i][:-1] if len(w2[i]) > 1 else w2[i] + 'x'
            elif kind < 0.7:
                w2[i] = w2[i] + r.choice('x=-')
            elif kind < 0.85 and len(w2) > 1:
                j = (i + 1) % len(w2)
                w2[i], w2[j] = w2[j], w2[i]
            else:
                del w2[i]
            add(w2 + [r.choice(cursors)])
    return qs[:budget]


def classify(M, words, observed_set, wb):
    """Signature for a mismatch: a recorded deviation if, and only if, the interpreter with that
    deviation switched on was driven through it and predicts exactly what was observed."""
    for dev in ((refrun.DEV_STALE,), (refrun.DEV_BOUNDARY,), (refrun.DEV_STALE, refrun.DEV_BOUNDARY)):
        res = M.run(words, dev)
        if not res['devs_used']:
            continue
        if set(res['devs_used']) != set(dev):
            continue
        pred = refrun.strip_wordbreaks(res['expected'], words[-1], wb)
        if pred == observed_set:
            return 'known-deviation:' + '+'.join(dev)
    return 'candidates-differ'


def check_grammar(stmts, ledger, r, budget, acc, origin, walks=()):
    text, _, _ = gast.print_grammar(stmts)
    rc, out, err = comp.compile_text(text, 'bash')
    if rc != 0:
        acc.count('not_accepted')
        return
    M = refrun.Machine(stmts, ledger.outputs, 'bash')
    ex = M.exclusions()
    if ex:
        acc.count('grammars_in_C09_C12_region')
        for e in ex:
            acc.count('excluded: ' + e)
        return
    vocab = sorted({x[1] for st in stmts for x in gast.walk(st[2] if st[0] == 'call' else st[3]) if x[0] == 'lit'})
    queries = []
    for w in walks:
        wb = r.choice([bashrun.wordbreaks(), ''])
        if isinstance(w, tuple):        # (words, COMP_WORDBREAKS) given by the family
            w, wb = w
        queries.append({'words': ['cmd'] + list(w), 'cword': len(w), 'wb': wb})
    queries += make_queries(M, r, max(0, budget - len(queries)), vocab)
    if not queries:
        return
    res = bashrun.run_session(out.decode('utf-8'), 'cmd', queries)
    if res['timed_out']:
        acc.inconclusive.append('bash session timed out for grammar: %s' % text[:300])
        return
    if res['source_rc'] != 0:
        acc.evals += 1
        acc.violation({'sig': 'script-does-not-load', 'grammar': text, 'observed': res['stderr'][:1000],
                       'stmts': stmts, 'outputs': ledger.outputs})
        return
    acc.count('grammars_run')
    acc.count('reference_states', M.dfa['n'])
    for q, ob in zip(queries, res['results']):
        if ob is None:
            acc.inconclusive.append('no answer for query %r' % (q,))
            continue
        acc.evals += 1
        words = q['words'][1:]
        ref = M.run(words)
        exp = refrun.strip_wordbreaks(ref['expected'], words[-1], q['wb'])
        obs = {c[:-1] if c.endswith(' ') else c for c in ob['reply']}
        if ref['matched'] and (len(words) > 1 or exp):
            acc.seen((text, words, q['wb']))
        elif not ref['matched']:
            acc.count('rejected_walks')
            acc.seen((text, words, q['wb']))
        if ref['matched']:
            if ref['level'] not in (None, 0):
                acc.count('higher_level_won')
            if exp:
                acc.count('queries_with_candidates')
        if q['wb'] == '':
            acc.count('queries_wordbreaks_empty')
        if obs != exp:
            sig = classify(M, words, obs, q['wb'])
            acc.violation({'sig': sig, 'grammar': text, 'shell': 'bash',
                           'query': {'words': q['words'], 'cword': q['cword'], 'wordbreaks': q['wb']},
                           'expected': sorted(exp), 'observed': sorted(obs), 'rc': ob['rc'],
                           'matched_by_reference': ref['matched'], 'stmts': stmts,
                           'outputs': ledger.outputs, 'origin': origin})
    acc.sample({'grammar': text, 'queries': len(queries),
                'example': {'words': queries[0]['words'], 'reply': res['results'][0]['reply'] if res['results'][0] else None}})


WORKERS = 3   # process creation does not scale in this sandbox (see DESIGN.md 6)


def same_text_two_ids_case(r, acc, origin):
    """Inside one word the same literal text with and without a description (at different points)."""
    pre = r.choice(['x', '--o=', 'k:', 'ab'])
    others = r.sample(['zed', 'q1', 'w'], 2)
    d = r.choice(['described', 'has a note'])
    stmts = [gast.call('cmd', gast.seq(('word', (gast.lit(pre), gast.alt(gast.lit(others[0]), gast.lit(pre, d), gast.lit(others[1])))),
                                       gast.lit('tail')))]
    text, _, _ = gast.print_grammar(stmts)
    rc, out, err = comp.compile_text(text, 'bash')
    if rc != 0:
        acc.count('not_accepted')
        return
    M = refrun.Machine(stmts, {}, 'bash')
    queries = [{'words': ['cmd', pre], 'cword': 1, 'wb': ''}, {'words': ['cmd', pre + pre, ''], 'cword': 2, 'wb': ''},
               {'words': ['cmd', pre + others[0], ''], 'cword': 2, 'wb': ''}, {'words': ['cmd', pre + others[0][:1]], 'cword': 1, 'wb': ''}]
    res = bashrun.run_session(out.decode('utf-8'), 'cmd', queries)
    if res['timed_out'] or res['source_rc'] != 0:
        acc.inconclusive.append('bash session failed')
        return
    for q, ob in zip(queries, res['results']):
        if ob is None:
            continue
        acc.evals += 1
        acc.count('same_text_two_descriptions_queries')
        words = q['words'][1:]
        ref = M.run(words)
        exp = ref['expected']
        obs = {c[:-1] if c.endswith(' ') else c for c in ob['reply']}
        acc.seen((text, words, ''))
        if obs != exp:
            # the emitted loop meets the described twin of the prefix literal first, finds no transition for it at
            # this point and stops: completion and matching then work from the state before the prefix
            stale = {pre} if len(words) == 1 and words[0].startswith(pre) and len(words[0]) <= len(pre) + 1 else None
            sig = 'candidates-differ'
            if (len(words) == 1 and obs == {pre}) or (len(words) == 2 and obs == set()):
                sig = 'known-deviation:within-word-same-text-two-ids'
            acc.violation({'sig': sig, 'grammar': text, 'shell': 'bash',
                           'query': {'words': q['words'], 'cword': q['cword'], 'wordbreaks': ''},
                           'expected': sorted(exp), 'observed': sorted(obs), 'rc': ob['rc'], 'stmts': stmts,
                           'outputs': {}, 'origin': origin})


def literal_of_another_place_case(r, acc, origin):
    """Inside one word, a literal expected at one place begins with the literal expected at a later place
    (`(x|abc)ab`): each place must be matched against the literals expected *there*."""
    short = r.choice(['ab', 'on', 'v1'])
    long_ = short + r.choice(['c', 'x', '-z'])
    first = r.choice(['x', 'q', 'k7'])
    pre = r.choice(['', 'k=', '--o:'])
    parts = ([gast.lit(pre)] if pre else []) + [gast.alt(gast.lit(first), gast.lit(long_)), gast.lit(short)]
    stmts = [gast.call('cmd', gast.seq(('word', tuple(parts)), gast.lit('tail')))]
    text, _, _ = gast.print_grammar(stmts)
    rc, out, err = comp.compile_text(text, 'bash')
    if rc != 0:
        acc.count('not_accepted')
        return
    M = refrun.Machine(stmts, {}, 'bash')
    full1, full2 = pre + first + short, pre + long_ + short
    queries = [{'words': ['cmd', full1, ''], 'cword': 2, 'wb': ''}, {'words': ['cmd', full2, ''], 'cword': 2, 'wb': ''},
               {'words': ['cmd', pre + first], 'cword': 1, 'wb': ''}, {'words': ['cmd', pre + first + short[:1]], 'cword': 1, 'wb': ''},
               {'words': ['cmd', full1 + 'x', ''], 'cword': 2, 'wb': ''}, {'words': ['cmd', full1, 'ta'], 'cword': 2, 'wb': ''}]
    res = bashrun.run_session(out.decode('utf-8'), 'cmd', queries)
    if res['timed_out'] or res['source_rc'] != 0:
        acc.inconclusive.append('bash session failed')
        return
    for q, ob in zip(queries, res['results']):
        if ob is None:
            continue
        acc.evals += 1
        acc.count('literal_of_another_place_queries')
        words = q['words'][1:]
        ref = M.run(words)
        exp = ref['expected']
        obs = {c[:-1] if c.endswith(' ') else c for c in ob['reply']}
        acc.seen((text, words, ''))
        if obs != exp:
            sig = 'candidates-differ'
            if len(words) == 2 and words[0] in (full1, full2) and obs == set() and ob['rc'] == 1:
                # the complete word is legal (the script itself offers it) but is not recognised: the loop
                # stopped at the longer literal of the earlier place
                sig = 'known-deviation:within-word-literal-of-another-place'
            acc.violation({'sig': sig, 'grammar': text, 'shell': 'bash',
                           'query': {'words': q['words'], 'cword': q['cword'], 'wordbreaks': ''},
                           'expected': sorted(exp), 'observed': sorted(obs), 'rc': ob['rc'], 'stmts': stmts,
                           'outputs': {}, 'origin': origin})


def shared_definition_grammar(r, ledger):
    """One definition (literals, a command, a word) referenced from several `||` branches of different index and
    from outside any `||`: every reference must carry the level of its own branch."""
    from ..gast import lit, nt, seq, alt, fb, opt, many, call, defn, cmd
    names = ['p', 'q', 'r1', 'go']
    body_items = [lit(r.choice(names) + str(i)) for i in range(r.randint(1, 3))]
    if r.random() < 0.4:
        body_items.append(cmd(ledger.factory(r, 0)))
    if r.random() < 0.4:
        body_items.append(('word', (lit('v='), alt(lit('on'), lit('off')))))
    if r.random() < 0.4:
        body_items.append(seq(lit('two'), lit('words')))
    defs = [defn('SH', None, alt(*body_items))]
    ref = nt('SH')
    if r.random() < 0.4:
        defs = [defn('SH', None, alt(nt('SH2'), lit('extra'))), defn('SH2', None, alt(*body_items))]

    nb = r.randint(2, 4)
    at_start = r.randrange(nb) if r.random() < 0.8 else None     # at most one branch begins with the definition

    def branch(i):
        own = lit('%s%d' % (r.choice(['z', 'w', 'm']), i))
        if i == at_start:
            return ref if r.random() < 0.5 else alt(own, ref)
        k = r.random()
        if k < 0.35:
            return alt(own, seq(lit('n%d' % i), ref))
        if k < 0.6:
            return seq(lit('n%d' % i), ref)
        if k < 0.8:
            return seq(own, opt(ref))
        return own
    branches = [branch(i) for i in range(nb)]
    e = fb(*branches)
    k = r.random()
    if k < 0.3:
        e = seq(e, lit('tail'))
    elif k < 0.5:
        e = seq(lit('head'), e, opt(ref))
    elif k < 0.65:
        e = many(e)
    stmts = [call('cmd', e)] + defs
    if r.random() < 0.4:
        stmts.insert(1, call('cmd', seq(lit('plain'), ref, lit('after'))))
    r.shuffle(stmts)
    return stmts


def repeated_break_characters_grammar(r):
    """Words in which a COMP_WORDBREAKS character occurs more than once (`--opt=uid=0`, `a:b:c`): with the default
    COMP_WORDBREAKS bash keeps the text after the *last* such character.  -> (stmts, walks)"""
    from ..gast import lit, seq, alt, call
    wbd = bashrun.wordbreaks()
    k = r.random()
    if k < 0.4:
        w = ('word', (lit('--opt='), alt(('word', (lit('uid='), alt(lit('0'), lit('1000')))), lit('ro'))))
        cur = ['--opt=uid=', '--opt=uid=1', '--opt=', '--opt=r', '--opt=u']
        full = '--opt=uid=1000'
    elif k < 0.7:
        w = ('word', (lit('a:'), lit('b:'), alt(lit('cat'), lit('dog'))))
        cur = ['a:b:', 'a:b:c', 'a:', 'a']
        full = 'a:b:dog'
    else:
        w = ('word', (lit('k=v,'), lit('k2='), alt(lit('x1'), lit('y2'))))
        cur = ['k=v,k2=', 'k=v,k2=x', 'k=v,', 'k=']
        full = 'k=v,k2=y2'
    stmts = [call('cmd', seq(w, lit('tail')))]
    walks = []
    for c in cur:
        walks.append(([c], wbd))
        walks.append(([c], ''))
    walks.append(([full, ''], wbd))
    walks.append(([full, 't'], wbd))
    return stmts, walks


def same_text_at_several_points_grammar(r):
    """One literal text expected at several points with a different description (or none) at each: one text,
    several literal ids; each occurrence must be read as the literal expected *there*.  -> (stmts, walks)"""
    from ..gast import lit, seq, alt, opt, many, call
    shared = r.choice(['run', 'go', 'x', 'list'])
    n = r.randint(2, 4)
    descrs = r.sample(['in the foreground', 'stop it', 'third meaning', 'again', None], n)
    heads = r.sample(['start', 'stop', 'zap', 'hold', 'quit'], n)
    branches, walks = [], []
    for i in range(n):
        tail = lit('t%d' % i)
        k = r.random()
        if k < 0.6:
            b = seq(lit(heads[i]), lit(shared, descrs[i]), tail)
            walks.append([heads[i], shared, ''])
            walks.append([heads[i], shared, 't'])
            walks.append([heads[i], shared, 't%d' % i, ''])
        elif k < 0.8:
            b = seq(lit(heads[i]), opt(lit('mid%d' % i)), lit(shared, descrs[i]), tail)
            walks.append([heads[i], 'mid%d' % i, shared, ''])
            walks.append([heads[i], shared, ''])
        else:
            b = seq(lit(heads[i]), many(alt(lit(shared, descrs[i]), lit('o%d' % i))), tail)
            walks.append([heads[i], shared, ''])
            walks.append([heads[i], 'o%d' % i, shared, shared, ''])
        walks.append([heads[i], shared[:1]])
        branches.append(b)
    r.shuffle(branches)
    if r.random() < 0.5:
        stmts = [call('cmd', b) for b in branches]
    else:
        stmts = [call('cmd', alt(*branches))]
    r.shuffle(walks)
    return stmts, walks[:12]


def make_jobs(tier, seed):
    n = 64 if tier == 'quick' else 420
    return [('rand', seed * 1000003 + i, 1, 32 if tier == 'quick' else 40) for i in range(n)]


def run_job(job, acc):
    _, s, count, budget = job
    r = random.Random(s)
    if s % 16 == 0:
        same_text_two_ids_case(r, acc, 'same-text-two-descriptions seed=%d' % s)
    if s % 16 == 8:
        literal_of_another_place_case(r, acc, 'literal of another place seed=%d' % s)
    if s % 4 == 1:
        for i in range(2):
            ledger = CmdLedger()
            stmts = shared_definition_grammar(r, ledger)
            acc.count('shared_definition_grammars')
            check_grammar(stmts, ledger, r, budget // 2, acc, 'definition shared by || branches seed=%d #%d' % (s, i))
    if s % 8 == 2:
        stmts, walks = repeated_break_characters_grammar(r)
        acc.count('repeated_break_character_grammars')
        check_grammar(stmts, CmdLedger(), r, len(walks), acc, 'repeated word-break characters seed=%d' % s, walks=walks)
    if s % 4 == 3:
        stmts, walks = same_text_at_several_points_grammar(r)
        acc.count('same_text_at_several_points_grammars')
        check_grammar(stmts, CmdLedger(), r, 16, acc, 'one text, several descriptions seed=%d' % s, walks=walks)
    for i in range(count):
        ledger = CmdLedger()
        stmts = profile_grammar(r, ledger)
        check_grammar(stmts, ledger, r, budget, acc, 'random seed=%d #%d' % (s, i))


def replay(w, acc):
    from .c02 import tuplify
    stmts = [tuplify(s) for s in w['stmts']]
    text = w['grammar']
    rc, out, err = comp.compile_text(text, 'bash')
    M = refrun.Machine(stmts, w['outputs'], 'bash')
    q = {'words': w['query']['words'], 'cword': w['query']['cword'], 'wb': w['query']['wordbreaks']}
    res = bashrun.run_session(out.decode(), 'cmd', [q])
    ob = res['results'][0]
    words = q['words'][1:]
    ref = M.run(words)
    exp = refrun.strip_wordbreaks(ref['expected'], words[-1], q['wb'])
    obs = {c[:-1] if c.endswith(' ') else c for c in ob['reply']}
    print('expected', sorted(exp), 'observed', sorted(obs), 'rc', ob['rc'])
    acc.evals += 1
    if obs != exp:
        acc.violation({'sig': classify(M, words, obs, q['wb']), 'grammar': text, 'expected': sorted(exp),
                       'observed': sorted(obs)})
