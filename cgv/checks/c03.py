"""C03 - minimisation preserves the language and yields the trim minimal automaton."""
import random

from .. import gast, gen, probe, automata as A
from . import common, c02

PROPERTY = 'C03'
LEVEL = 'translation_validation'
RULE = ('for every accepted (grammar, shell) the pair (DFA::from_regex_raw, .minimize()) of the main '
        'automaton and, through the verif_regexes hook, of every within-word automaton is judged exactly: '
        '(1) product search finds no distinguishing sequence, (2) every state of the result is reachable '
        'and co-reachable, (3) Moore refinement leaves only singleton classes, (4) its size equals that of '
        'an independent minimisation of the input. sources: exhaustive trees <= N nodes, seeded random '
        'grammars, and a family biased to all-accepting automata, optional tails and shared suffixes. '
        'non-trivial = input automaton has >= 3 states; distinct by hash of the raw automaton')
RULE += ' ' + 'Further sources: long word sequences over 2-3 literals; 2-4 literals under nested repetition / option / alternation (top level and inside one word); the nested automata as stored inside the compiled automaton are judged too (language of some within-word regex, minimal size).'
ASSUMPTIONS = ['inputs are compared by interned identity, which minimize() carries over unchanged',
               'cgv/automata.py (Moore refinement, product search) is the trusted oracle']
MIN_EVALS = {'quick': 10000, 'thorough': 100000}
NSHARDS = 64


def to_dfa(flat):
    delta = {}
    for a, i, b in flat['tr']:
        delta.setdefault(a, {})[i] = b
    delta.setdefault(flat['start'], {})
    states = set(delta) | {b for r in delta.values() for b in r.values()} | set(flat['acc'])
    return {'start': flat['start'], 'acc': set(flat['acc']), 'delta': delta, 'n': len(states)}, states


def judge_pair(raw, mn):
    """Returns None or (sig, detail)."""
    D, dstates = to_dfa(raw)
    M, mstates = to_dfa(mn)
    w = A.distinguish(D, M)
    if w is not None:
        return 'language-changed', {'sequence_of_input_ids': w[0],
                                    'accepted_by': 'input only' if w[1] else 'minimised only'}
    T = A.trim(M)
    tstates = set(T['delta']) | {b for r in T['delta'].values() for b in r.values()}
    extra = sorted(mstates - tstates)
    if extra:
        return 'not-trim', {'useless_states': extra}
    block = A.moore(M)
    classes = {}
    for s, b in block.items():
        classes.setdefault(b, []).append(s)
    merged = [sorted(v) for v in classes.values() if len(v) > 1]
    if merged:
        return 'not-minimal', {'equivalent_states': merged[:5]}
    mine = A.minimize(D)
    if mine['n'] != len(mstates):
        return 'size-differs', {'expected_states': mine['n'], 'observed_states': len(mstates)}
    return None


BIAS = [
    'cmd [(a|x)(c|y)]...(a|x|b)d;',
    'cmd [<KV>,]...(<KV>|none)[!]; <KV> = (k|q)=(v|w);',
    'cmd [a [c]] | [b [c]];',
    'cmd [a] [b] [c];',
    'cmd ([a] b | a) [c];',
    'cmd [[a]... b]...;',
    'cmd [a [b [c]]] | [x [b [c]]];',
    'cmd [--o=[(x|y)]] [--p=[(x|y)]];',
    'cmd [a | b]... ;',
]


def biased_grammar(r):
    """Optional tails and shared suffixes: many accepting states, equivalent states to merge."""
    lits = ['a', 'b', 'c', 'd', 'e']

    def tail(depth):
        if depth == 0 or r.random() < 0.25:
            return gast.lit(r.choice(lits))
        k = r.random()
        if k < 0.45:
            return gast.opt(gast.seq(gast.lit(r.choice(lits)), tail(depth - 1)))
        if k < 0.7:
            return gast.alt(tail(depth - 1), gast.opt(tail(depth - 1)))
        if k < 0.85:
            return gast.many(gast.opt(tail(depth - 1)))
        return gast.seq(gast.opt(tail(depth - 1)), gast.opt(tail(depth - 1)))
    if r.random() < 0.25:
        # a word that begins with an optional repetition and loops back to its own start
        item = gast.alt(gast.lit(r.choice('ax')), gast.lit(r.choice('ky')))
        item2 = gast.alt(gast.lit(r.choice('cv')), gast.lit(r.choice('wz')))
        rep = gast.opt(('word', (item, item2, gast.lit(r.choice([',', '']))))) if False else \
            gast.opt(('word', (item, item2)))
        body = ('word', (gast.many(rep) if r.random() < 0.5 else gast.opt(gast.many(('word', (item, item2)))),
                         gast.alt(item, gast.lit('b')), gast.lit('d')))
        e = gast.seq(body, gast.opt(gast.lit('end')))
        if r.random() < 0.5:
            e = gast.seq(('word', (gast.opt(gast.many(('word', (gast.nt('KV'), gast.lit(','))))),
                                   gast.alt(gast.nt('KV'), gast.lit('none')), gast.opt(gast.lit('!')))), gast.lit('x'))
            return [gast.call('cmd', e), gast.defn('KV', None, ('word', (gast.alt(gast.lit('k'), gast.lit('q')),
                                                                       gast.lit('='), gast.alt(gast.lit('v'), gast.lit('w')))))]
        return [gast.call('cmd', e)]
    if r.random() < 0.3:
        e = gast.opt(tail(r.randint(1, 4)))
    else:
        e = gast.alt(gast.opt(tail(r.randint(1, 3))), gast.opt(tail(r.randint(1, 3))))
    if r.random() < 0.3:
        e = gast.seq(gast.word(gast.lit('--k='), gast.opt(gast.alt(gast.lit('p'), gast.seq(gast.lit('q')))),
                               ), e) if False else gast.seq(
            ('word', (gast.lit('--k='), gast.opt(gast.alt(gast.lit('p'), gast.lit('q'))),
                      gast.opt(('word', (gast.lit(','), gast.opt(gast.alt(gast.lit('p'), gast.lit('q')))))))), e)
    return [gast.call('cmd', e)]


def long_sequence_texts(r, n):
    """Plain long word sequences over 2-3 literals (long chains with many equal input symbols), some with an
    alternative second chain or an optional tail."""
    for _ in range(n):
        k = r.random()
        if k < 0.35:
            length = r.randint(10, 13)
            alpha = 'ab'
        else:
            length = r.randint(8, 12)
            alpha = 'abc'
        seq1 = ' '.join(r.choice(alpha) for _ in range(length))
        if k > 0.85:
            seq2 = ' '.join(r.choice(alpha) for _ in range(r.randint(4, 9)))
            yield 'cmd %s | %s;' % (seq1, seq2)
        elif k > 0.75:
            cut = r.randint(3, length - 2) * 2
            yield 'cmd %s [%s];' % (seq1[:cut].strip(), seq1[cut:].strip() or 'a')
        else:
            yield 'cmd %s;' % seq1


def make_jobs(tier, seed):
    jobs = [('fixed',)]
    for i in range(16 if tier == 'quick' else 64):
        jobs.append(('longseq', seed * 1000003 + 900 + i, 500 if tier == 'quick' else 2500))
    n = 5 if tier == 'quick' else 6
    for s in range(NSHARDS):
        jobs.append(('exh', n, s))
    nrand = 3200 if tier == 'quick' else 32000
    for s in range(NSHARDS):
        jobs.append(('rand', seed * 1000003 + s, nrand // NSHARDS))
        jobs.append(('bias', seed * 1000003 + 500 + s, nrand // NSHARDS))
        jobs.append(('loopy', seed * 1000003 + 700 + s, (4 * nrand) // NSHARDS))
    return jobs


def check_text(P, text, shell, acc, origin, stmts=None):
    ans = P.ask('g', shell, 'dfa,subraw', text)
    if ans.get('stage') != 'done':
        acc.count('not_accepted_' + str(ans.get('stage')))
        return
    acc.count('programs')
    # the nested automata as the compiler stores them inside the main automaton must be the minimal
    # automata of the within-word regexes: same language as some raw automaton, trim, no equivalent states
    if ans['dfa_min']['subs']:
        from .. import refsem
        raw_canons = []
        for sr in ans.get('subraw', []):
            if 'raw' in sr:
                raw_canons.append(refsem.dump_canon(sr['raw']))
        for sid, flat in ans['dfa_min']['subs'].items():
            acc.count('stored_nested_automata_judged')
            acc.evals += 1
            c = refsem.dump_canon({'main': flat, 'subs': {}})
            nstates = len({t[0] for t in flat['tr']} | {t[2] for t in flat['tr']} | {flat['start']})
            if c not in raw_canons:
                acc.count('disagreements_checked')
                acc.violation({'sig': 'stored-nested-automaton-language-changed',
                               'what': 'nested automaton #%s stored in the compiled automaton accepts a language that no '
                                       'within-word expression of the grammar has' % sid,
                               'grammar': text, 'shell': shell, 'origin': origin, 'min': flat})
                return
            if c[0] != nstates:
                acc.count('disagreements_checked')
                acc.violation({'sig': 'stored-nested-automaton-not-minimal',
                               'what': 'nested automaton #%s has %d states, its language needs %d' % (sid, nstates, c[0]),
                               'grammar': text, 'shell': shell, 'origin': origin, 'min': flat})
                return
    pairs = [('main', ans['dfa_raw']['main'], ans['dfa_min']['main'])]
    for i, sr in enumerate(ans.get('subraw', [])):
        if 'raw' in sr:
            pairs.append(('within-word #%d' % i, sr['raw']['main'], sr['min']['main']))
    for name, raw, mn in pairs:
        acc.count('automata_judged')
        acc.evals += 1
        v = judge_pair(raw, mn)
        nraw = len({t[0] for t in raw['tr']} | {t[2] for t in raw['tr']})
        nmin = len({t[0] for t in mn['tr']} | {t[2] for t in mn['tr']})
        acc.count('states_in', nraw)
        acc.count('states_out', nmin)
        if nmin < nraw:
            acc.count('automata_that_shrank')
        if set(raw['acc']) >= ({t[0] for t in raw['tr']} | {t[2] for t in raw['tr']}):
            acc.count('all_accepting_inputs')
        if nraw >= 3:
            acc.seen(raw)
        if v is not None:
            acc.count('disagreements_checked')
            sig, detail = v
            acc.violation({'sig': sig, 'what': '%s automaton: %s' % (name, sig), 'grammar': text,
                           'shell': shell, 'origin': origin, 'detail': detail,
                           'raw': raw, 'min': mn})
            return
    acc.sample({'grammar': text, 'shell': shell, 'automata': len(pairs)})


def run_job(job, acc):
    P = probe.Probe()
    try:
        if job[0] == 'fixed':
            for t in BIAS:
                check_text(P, t, 'bash', acc, 'fixed list')
        elif job[0] == 'longseq':
            r = random.Random(job[1])
            for t in long_sequence_texts(r, job[2]):
                check_text(P, t, 'bash', acc, 'long sequence seed=%d' % job[1])
        elif job[0] == 'exh':
            _, n, shard = job
            for stmts in common.exhaustive_grammars(n, shard, NSHARDS):
                text, _, _ = gast.print_grammar(stmts)
                check_text(P, text, 'bash', acc, 'exhaustive<=%d' % n)
        elif job[0] == 'rand':
            _, s, per = job
            r = random.Random(s)
            for i in range(per):
                stmts = c02.random_grammar(r)
                text, _, _ = gast.print_grammar(stmts)
                check_text(P, text, r.choice(common.SHELLS), acc, 'random seed=%d #%d' % (s, i))
        elif job[0] == 'loopy':
            _, s, per = job
            r = random.Random(s)
            for i in range(per):
                text, _, _ = gast.print_grammar(common.loopy_grammar(r))
                check_text(P, text, 'bash', acc, 'loopy seed=%d #%d' % (s, i))
        else:
            _, s, per = job
            r = random.Random(s)
            for i in range(per):
                text, _, _ = gast.print_grammar(biased_grammar(r))
                check_text(P, text, 'bash', acc, 'biased seed=%d #%d' % (s, i))
    finally:
        P.close()


def replay(w, acc):
    P = probe.Probe()
    try:
        check_text(P, w['grammar'], w['shell'], acc, 'replay')
    finally:
        P.close()
