"""C14 - layout and statement order do not change the output."""
import os
import random

from .. import gast, gen, paths, compile as comp
from . import common, c02

PROPERTY = 'C14'
LEVEL = 'exploration'
WORKERS = 4
RULE = ('accepted grammars (generator profile of C02 incl. within-word expressions, shell-specific and built-in '
        'nonterminals; the bundled examples) are printed canonically and K times re-laid-out: random blanks, tabs, '
        'newlines, form feeds and # comments at every legal boundary, = vs ::=, final ; present or absent, '
        'redundant parentheses around space-separated items outside words, any permutation of the definitions '
        'and of definitions relative to call variants (call-variant order kept). The real binary compiles every '
        'variant for all four shells; the script bytes must equal those of the canonical text. '
        'non-trivial = grammar with >= 1 definition or >= 3 lines after re-layout; distinct by hash of variant text')
RULE += ' ' + 'Families: alternatives that reference one definition several times (directly and through an alias); dependency DAGs of definitions over a pool of 50 names.'
ASSUMPTIONS = ['same binary for all variants, so the embedded version string is constant',
               'call-variant order is not permuted (not promised by the statement)']
MIN_EVALS = {'quick': 1000, 'thorough': 10000}


def relayout(stmts, r):
    calls = [s for s in stmts if s[0] == 'call']
    defs = [s for s in stmts if s[0] == 'def']
    r.shuffle(defs)
    out = []
    ci = 0
    for d in defs:
        while ci < len(calls) and r.random() < 0.4:
            out.append(calls[ci])
            ci += 1
        out.append(d)
    out.extend(calls[ci:])
    text, _, _ = gast.print_grammar(out, layout=r, enc_rng=r, last_semicolon=r.random() < 0.6,
                                    paren_rng=r if r.random() < 0.7 else None)
    return text


def make_jobs(tier, seed):
    k = 30 if tier == 'quick' else 160
    jobs = [('ex', seed, tier)]
    jobs += [('j', seed * 1000003 + i, 4, 5 if tier == 'quick' else 7) for i in range(k)]
    return jobs


def compare(acc, stmts, r, nvar, origin):
    base, _, _ = gast.print_grammar(stmts)
    ref = {}
    for sh in common.SHELLS:
        rc, out, err = comp.compile_text(base, sh)
        acc.evals += 1
        if rc != 0:
            acc.count('base_rejected_for_' + sh)
        ref[sh] = out if rc == 0 else None
    for v in range(nvar):
        text = relayout(stmts, r)
        for sh in common.SHELLS:
            rc, out, err = comp.compile_text(text, sh)
            acc.evals += 1
            acc.count('variant_compilations')
            if ref[sh] is None:
                # a file complgen rejects: every re-layout of it must be rejected too (no script either way)
                if rc == 0:
                    acc.violation({'sig': 'relayout-accepted-a-rejected-grammar', 'shell': sh, 'grammar': base,
                                   'variant': text, 'origin': origin})
                    return
                continue
            if rc != 0 or out != ref[sh]:
                from .c15 import first_diff
                acc.violation({'sig': 'relayout-changes-output' if rc == 0 else 'relayout-rejected',
                               'shell': sh, 'grammar': base, 'variant': text,
                               'observed': first_diff(ref[sh], out) if rc == 0 else err.decode('utf-8', 'replace')[:500],
                               'origin': origin})
                return
        if any(s[0] == 'def' for s in stmts) or text.count('\n') >= 3:
            acc.seen(text)
    acc.sample({'canonical': base[:300], 'variant': text[:400]})


def ast_from_parse(parse):
    """Generator AST of a parsed grammar (for re-laying-out the bundled examples): inside a word the parser has
    turned nested juxtapositions into plain sequences; they are printed as juxtapositions again."""
    from .. import treecmp

    def fix(e, in_word):
        k = e[0]
        if k == 'word':
            return ('word', tuple(fix(c, True) for c in e[1]))
        if k == 'seq':
            items = tuple(fix(c, in_word) for c in e[1])
            return ('word', items) if in_word else ('seq', items)
        if k in ('alt', 'fb'):
            return (k, tuple(fix(c, in_word) for c in e[1]))
        if k in ('opt', 'many'):
            return (k, fix(e[1], in_word))
        if k == 'desc':
            return ('desc', fix(e[1], in_word), e[2])
        return e
    out = []
    for st in treecmp.parsed_statements(parse):
        if st[0] == 'call':
            out.append(('call', st[1], fix(st[2], False)))
        else:
            out.append(('def', st[1], st[2], fix(st[3], False)))
    return out


def run_job(job, acc):
    if job[0] == 'ex':
        # bundled examples and the README grammars, re-laid-out through their parsed trees
        from .. import probe
        r0 = random.Random(job[1])
        P = probe.Probe()
        try:
            exdir = os.path.join(paths.REPO, 'examples')
            for name in sorted(os.listdir(exdir)):
                with open(os.path.join(exdir, name)) as f:
                    src = f.read()
                ans = P.ask('x', 'bash', 'parse', src)
                if 'parse' not in ans:
                    continue
                stmts = ast_from_parse(ans['parse'])
                ref = {}
                for sh in common.SHELLS:
                    rc, out, err = comp.compile_text(src, sh)
                    acc.evals += 1
                    if rc == 0:
                        ref[sh] = out
                for v in range(2 if job[2] == 'quick' else 4):
                    text = relayout(stmts, r0) if v else gast.print_grammar(stmts)[0]
                    acc.seen(text)
                    for sh, want in ref.items():
                        rc, out, err = comp.compile_text(text, sh)
                        acc.evals += 1
                        acc.count('example_variant_compilations')
                        if rc != 0 or out != want:
                            from .c15 import first_diff
                            acc.violation({'sig': 'relayout-changes-output' if rc == 0 else 'relayout-rejected',
                                           'shell': sh, 'grammar': src[:2000], 'variant': text[:3000],
                                           'observed': first_diff(want, out) if rc == 0 else err.decode('utf-8', 'replace')[:500],
                                           'origin': 'example %s variant %d' % (name, v)})
                            break
        finally:
            P.close()
    if job[0] == 'ex':
        # the bundled examples: only blank-level re-layout is possible without an AST; covered by
        # appending comments / blank lines / form feeds between statements
        r = random.Random(job[1])
        exdir = os.path.join(paths.REPO, 'examples')
        for name in sorted(os.listdir(exdir)):
            with open(os.path.join(exdir, name)) as f:
                src = f.read()
            for sh in common.SHELLS:
                rc, out, err = comp.compile_text(src, sh)
                acc.evals += 1
                if rc != 0:
                    continue
                var = '# leading comment\n\n\x0c' + src.replace(';\n', ' ;  # c\n\n') + '\n\n# trailing\n'
                rc2, out2, err2 = comp.compile_text(var, sh)
                acc.evals += 1
                acc.seen(var)
                if rc2 != 0 or out2 != out:
                    acc.violation({'sig': 'relayout-changes-output', 'shell': sh, 'grammar': src[:500], 'variant': var[:500],
                                   'origin': 'example ' + name})
        return
    _, s, n, nvar = job
    r = random.Random(s)
    for i in range(n):
        stmts = repeated_references_grammar(r) if i % 4 == 3 else \
            (common.dag_grammar(r) if i % 4 == 1 else c02.random_grammar(r))
        if i % 4 == 2 and s % 2 == 0:
            # a grammar with one planted mistake: rejected in every layout
            from . import c08
            if r.random() < 0.5:
                _, stmts, _ = c08.plant(r, c08.base_grammar(r), r.choice(common.SHELLS))
            else:
                # a shell-specific command definition next to a plain definition that is no command: whatever
                # complgen makes of it for each target shell, it must not depend on which of the two comes first
                from ..gast import lit, nt, cmd, seq, alt, call, defn
                stmts = [call('cmd', seq(lit('go'), nt('X'), lit('end'))), defn('X', None, alt(lit('foo'), lit('bar')))]
                for sh in r.sample(common.SHELLS, r.randint(1, 3)):
                    stmts.append(defn('X', sh, cmd('echo a_%s' % sh)))
                if r.random() < 0.5:
                    stmts.append(defn('Y', None, lit('y')))
                    stmts[0] = call('cmd', seq(lit('go'), nt('X'), nt('Y')))
                r.shuffle(stmts)
        compare(acc, stmts, r, nvar, 'seed=%d #%d' % (s, i))


def repeated_references_grammar(r):
    """The same definition referenced several times in one alternative (directly and through an alias), next to
    other definitions: anything that orders or de-duplicates branches by where their definitions stand in the file
    shows when the definitions are permuted."""
    from ..gast import lit, nt, seq, alt, fb, opt, many, call, defn
    names = r.sample(['A', 'B', 'C', 'INSTALL', 'REMOVE', 'ADD', 'Q9', 'zed'], r.randint(2, 4))
    defs = []
    for i, nm in enumerate(names):
        body = r.choice([seq(lit('w%d' % i), lit('x%d' % i)), alt(lit('p%d' % i), lit('q%d' % i)),
                         seq(lit('k%d' % i), opt(lit('z%d' % i))), lit('only%d' % i)])
        defs.append(defn(nm, None, body))
    alias = None
    if r.random() < 0.5:
        alias = 'ALIAS'
        defs.append(defn(alias, None, nt(names[0])))
    refs = [nt(n) for n in names] + [nt(r.choice(names)) for _ in range(r.randint(1, 3))]
    if alias:
        refs.append(nt(alias))
    r.shuffle(refs)
    e = alt(*refs) if r.random() < 0.7 else fb(alt(*refs[:len(refs) // 2 + 1]), alt(*refs[len(refs) // 2 + 1:] + [lit('last')]))
    k = r.random()
    if k < 0.3:
        e = seq(e, lit('tail'))
    elif k < 0.5:
        e = seq(lit('head'), opt(e))
    elif k < 0.6:
        e = many(e)
    stmts = [call('cmd', e)] + defs
    if r.random() < 0.3:
        stmts.append(call('cmd', seq(lit('second'), alt(nt(names[-1]), nt(names[0]), nt(names[-1])))))
    r.shuffle(stmts)
    return stmts


def replay(w, acc):
    rc, out, err = comp.compile_text(w['grammar'], w['shell'])
    rc2, out2, err2 = comp.compile_text(w['variant'], w['shell'])
    acc.evals += 2
    print('rc', rc, rc2, 'equal', out == out2)
    if rc2 != rc or out != out2:
        acc.violation({'sig': w['sig'], 'grammar': w['grammar'], 'variant': w['variant']})
