"""C15 - warnings are complete, precise and harmless."""
import random

from .. import gast, compile as comp
from ..gast import lit, nt, cmd, seq, alt, fb, opt, many, call, defn, walk
from . import common, c13

PROPERTY = 'C15'
LEVEL = 'exploration'
WORKERS = 4
RULE = ('accepted grammars over 3-9 nonterminal names, each independently {plain definition, definition for the '
        'target shell, for other shells, several of these, none} and referenced {directly, inside a word, under '
        '[] / ... / ||, only through used definitions, only through unused definitions, never}, plus <_>, PATH and '
        'DIRECTORY, compiled by the real binary for each of the four shells with random layout. The multiset of '
        '(warning kind, name) read from stderr (name = the token at the reported location) must equal the '
        'multiset computed from the AST, every location must be an occurrence of that name, the exit status is 0, '
        'and the script is byte-identical to that of the grammar with its unused definitions removed. '
        'non-trivial = expected warning multiset is non-empty; distinct by hash of (text, shell)')
ASSUMPTIONS = ['"refers to" counts references from any statement, including definitions that are themselves unused',
               'output to stdout, so the zsh file-name hint (about the command line, not the grammar) is not in play']
MIN_EVALS = {'quick': 1200, 'thorough': 12000}


def make_grammar(r, shell):
    n = r.randint(3, 9)
    names = ['N%d' % i for i in range(n)]
    status = {}
    stmts = []
    # decide definitions
    defs = {}
    for i, nm in enumerate(names):
        k = r.random()
        st = set()
        if k < 0.35:
            st.add('plain')
        elif k < 0.5:
            st.add('target')
        elif k < 0.6:
            st.add('other')
        elif k < 0.7:
            st |= {'plaincmd', 'target'}
        elif k < 0.78:
            st |= {'plaincmd', 'other'}
        elif k < 0.84:
            st |= {'target', 'other'}
        status[nm] = st
    special = []
    if r.random() < 0.4:
        special.append('_')
    if r.random() < 0.3:
        special.append(r.choice(['PATH', 'DIRECTORY']))

    wordsafe = {nm for nm in names if r.random() < 0.4}

    def ref_expr(i):
        """expression mentioning some later names (no cycles)."""
        nm_i = names[i]
        if nm_i in wordsafe:
            # usable inside a word: alternatives of literals and of later word-safe names (tail position)
            parts = [lit('v%d' % i)]
            for nm in names[i + 1:]:
                if nm in wordsafe and r.random() < 0.4:
                    parts.append(nt(nm))
            if r.random() < 0.3:
                parts.append(lit('u%d' % i))
            r.shuffle(parts)
            return alt(*parts)
        later = names[i + 1:] + special
        parts = [lit('x%d' % i)]
        for nm in later:
            if r.random() < 0.3:
                form = r.random()
                if form < 0.5:
                    parts.append(nt(nm))
                elif form < 0.7:
                    parts.append(opt(nt(nm)))
                elif form < 0.85 and (nm in wordsafe or nm in special):
                    parts.append(('word', (lit('w%d=' % i), nt(nm))))
                else:
                    parts.append(fb(lit('f%d' % i), nt(nm)))
        r.shuffle(parts)
        return alt(*parts) if r.random() < 0.5 else seq(*parts)

    others = [s for s in common.SHELLS if s != shell]
    for i, nm in enumerate(names):
        st = status[nm]
        if 'plain' in st:
            stmts.append(defn(nm, None, ref_expr(i)))
        if 'plaincmd' in st:
            stmts.append(defn(nm, None, cmd('echo plain%d' % i)))
        if 'target' in st:
            stmts.append(defn(nm, shell, cmd('echo t%d' % i)))
        if 'other' in st:
            for o in r.sample(others, r.randint(1, 2)):
                stmts.append(defn(nm, o, cmd('echo o%d' % i)))
    for sp in special:
        # the predefined names may be (re)defined by the grammar like any other name
        if r.random() < 0.35:
            stmts.append(defn(sp, None, alt(lit('pd1'), lit('pd2')) if sp != '_' or r.random() < 0.5 else cmd('echo us')))
        elif r.random() < 0.2:
            stmts.append(defn(sp, shell, cmd('echo special')))
    if not special and r.random() < 0.1:
        stmts.append(defn('DIRECTORY', None, lit('unused-dir-def')))
    if '_' not in special and r.random() < 0.1:
        # `_` defined but never referred to: exempt from "Undefined" only, not from "Unused"
        stmts.append(defn('_', None, cmd('echo unused underscore')))
        if r.random() < 0.5:
            stmts.append(defn('_', shell, cmd('echo unused underscore spec')))
    ncalls = r.randint(1, 2)
    calls = []
    for c in range(ncalls):
        parts = [lit('c%d' % c)]
        for nm in names + special:
            if r.random() < 0.35:
                form = r.random()
                if form < 0.5:
                    parts.append(nt(nm))
                elif form < 0.65:
                    parts.append(many(nt(nm)))
                elif form < 0.8 and (nm in wordsafe or nm in special):
                    parts.append(('word', (lit('cw%d=' % c), nt(nm))))
                else:
                    parts.append(opt(alt(lit('q'), nt(nm))))
        calls.append(call('cmd', seq(*parts)))
    r.shuffle(stmts)
    out = []
    ci = 0
    for s in stmts:
        if ci < len(calls) and r.random() < 0.4:
            out.append(calls[ci])
            ci += 1
        out.append(s)
    out.extend(calls[ci:])
    return out


def expectation(stmts, shell):
    """(expected multiset as sorted list of (kind, name), set of unused definition statements)"""
    plain = {}
    target = {}
    for s in stmts:
        if s[0] == 'def':
            if s[2] is None:
                plain[s[1]] = s
            elif s[2] == shell:
                target[s[1]] = s
    referenced = set()
    for s in stmts:
        e = s[2] if s[0] == 'call' else s[3]
        for x in walk(e):
            if x[0] == 'nt':
                referenced.add(x[1])
    # names reachable from the call variants through the definitions that are in force
    reach = set()
    stack = []
    for s in stmts:
        if s[0] == 'call':
            stack.extend(x[1] for x in walk(s[2]) if x[0] == 'nt')
    while stack:
        nm = stack.pop()
        if nm in reach:
            continue
        reach.add(nm)
        if nm in target:
            continue
        if nm in plain:
            stack.extend(x[1] for x in walk(plain[nm][3]) if x[0] == 'nt')
    exp = []
    for nm in sorted(reach):
        if nm in ('_', 'PATH', 'DIRECTORY'):
            continue
        if nm not in plain and nm not in target:
            exp.append(('Undefined', nm))
    unused_stmts = []
    for nm, s in plain.items():
        if nm not in referenced:
            exp.append(('Unused', nm))
            unused_stmts.append(s)
    for nm, s in target.items():
        if nm not in referenced:
            exp.append(('Unused specialization', nm))
            unused_stmts.append(s)
    return sorted(exp), unused_stmts


def make_jobs(tier, seed):
    k = 40 if tier == 'quick' else 320
    return [('j', seed * 1000003 + i, 45) for i in range(k)]


def run_job(job, acc):
    _, s, n = job
    r = random.Random(s)
    for i in range(n):
        shell = r.choice(common.SHELLS)
        stmts = make_grammar(r, shell)
        lay = r if r.random() < 0.5 else None
        text, tokens, stmt_toks = gast.print_grammar(stmts, layout=lay)
        rc, out, err = comp.compile_text(text, shell)
        acc.evals += 1
        exp, unused_stmts = expectation(stmts, shell)
        meta = {'shell': shell, 'seed': s, 'i': i}
        if rc != 0:
            acc.violation({'sig': 'warning-only-grammar-rejected', 'grammar': text, 'shell': shell, 'rc': rc,
                           'observed': err.decode('utf-8', 'replace')[:600], 'expected': exp})
            continue
        at = {}
        for t in tokens:
            at.setdefault((t['line'], t['col']), []).append(t)
        diags = c13.parse_diags(err.decode('utf-8', 'replace'))
        got = []
        bad = None
        for d in diags:
            if d['sev'] != 'warning':
                bad = 'non-warning diagnostic on success: %s' % d['msg']
                break
            here = at.get((d['line'], d['col']), [])
            name = None
            for t in here:
                if d['msg'] == 'Undefined' and t['kind'] == 'nt':
                    name = t['payload'][1]
                elif d['msg'] == 'Unused' and t['kind'] == 'defname' and t['payload'][2] is None:
                    name = t['payload'][1]
                elif d['msg'] == 'Unused specialization' and t['kind'] == 'defname' and t['payload'][2] == shell:
                    name = t['payload'][1]
            if name is None:
                bad = 'warning %r at %d:%d is not at an occurrence of a matching name (tokens there: %s)' % (
                    d['msg'], d['line'], d['col'], [(t['kind'], t['payload'][1]) for t in here])
                break
            got.append((d['msg'], name))
        other_lines = [l for l in err.decode('utf-8', 'replace').split('\n') if 'warning' in l and not c13.LOC.match(l)]
        if bad is None and other_lines:
            bad = 'unlocated warning: %s' % other_lines[0][:100]
        if bad is None and sorted(got) != exp:
            missing = [x for x in exp if x not in got]
            extra = [x for x in got if x not in exp]
            dup = [x for x in set(got) if got.count(x) > 1]
            bad = 'warnings differ: missing %s, unexpected %s, repeated %s' % (missing, extra, dup)
        if bad:
            acc.violation({'sig': 'warnings:' + bad.split(':')[0][:40], 'grammar': text, 'shell': shell,
                           'expected': exp, 'observed': sorted(got), 'what': bad, 'meta': meta})
            continue
        if exp:
            acc.seen((text, shell))
        for kind, _ in exp:
            acc.count('expected_' + kind)
        acc.count('grammars_without_warnings' if not exp else 'grammars_with_warnings')
        # harmless: same bytes as without the unused definitions
        if unused_stmts and r.random() < 0.7:
            pruned = [s2 for s2 in stmts if s2 not in unused_stmts]
            text2, _, _ = gast.print_grammar(pruned, layout=None)
            rc2, out2, err2 = comp.compile_text(text2, shell)
            acc.evals += 1
            acc.count('script_comparisons')
            if rc2 != 0 or out2 != out:
                acc.violation({'sig': 'warnings-not-harmless', 'grammar': text, 'shell': shell,
                               'what': 'script differs from that of the grammar without its unused definitions',
                               'observed': {'rc': rc2, 'pruned': text2, 'first_diff': first_diff(out, out2)},
                               'meta': meta})
                continue
        acc.sample({'grammar': text[:300], 'shell': shell, 'warnings': exp})


def first_diff(a, b):
    n = min(len(a), len(b))
    for i in range(n):
        if a[i] != b[i]:
            return {'offset': i, 'a': a[max(0, i - 40):i + 40].decode('utf-8', 'replace'),
                    'b': b[max(0, i - 40):i + 40].decode('utf-8', 'replace')}
    return {'offset': n, 'len_a': len(a), 'len_b': len(b)}


def replay(w, acc):
    rc, out, err = comp.compile_text(w['grammar'], w['shell'])
    print('rc', rc)
    print(err.decode('utf-8', 'replace')[:3000])
    print('expected', w.get('expected'))
    acc.evals += 1
