"""C02 - the compiled automaton recognises exactly the grammar's labelled language."""
import random

from .. import gast, gen, probe
from . import common

PROPERTY = 'C02'
LEVEL = 'translation_validation'
RULE = ('every (grammar, shell) pair is compiled through the real pipeline (cgprobe: parse, '
        'ValidGrammar::from_grammar, Regex::from_valid_grammar, DFA::from_regex_raw, minimize) and '
        'both dumped automata (raw, minimised; nested automata inside the symbols) are compared for '
        'exact labelled language equivalence with the reference automaton built from the generator\'s '
        'AST; sources: every expression tree with <= N nodes over {a, b, a "d", <U>, <D>, {{{c}}}} x '
        '{seq,|,||,[],...,word} and seeded random grammars (depth <= 6, <= 8 definitions, shuffled, '
        'shell-specific and built-in nonterminals). non-trivial = accepted by complgen and the '
        'reference automaton has >= 2 states; distinct by hash of (text, shell)')
RULE += ' ' + 'Families added to the random source: many permuted within-word pairs, dependency DAGs of 4-9 definitions over a pool of 50 names, 2-4 literals under nested repetition / option / alternation at top level and inside one word.'
ASSUMPTIONS = ['reference semantics cgv/refsem.py written from README/property statements',
               'description attachment is only judged for the documented shapes (determinate class)',
               'built-in PATH/DIRECTORY command text is abstracted to a BUILTIN symbol (C11 owns the text)']
MIN_EVALS = {'quick': 20000, 'thorough': 200000}
EXHAUSTIVE = {}

NSHARDS = 64


def make_jobs(tier, seed):
    jobs = []
    n = 5 if tier == 'quick' else 6
    for s in range(NSHARDS):
        jobs.append(('exh', n, s))
    nrand = 3200 if tier == 'quick' else 32000
    per = nrand // NSHARDS
    for s in range(NSHARDS):
        jobs.append(('rand', seed * 1000003 + s, per))
        jobs.append(('loopy', seed * 1000003 + 700 + s, 3 * per))
    return jobs


def random_grammar(r):
    k = r.random()
    if k < 0.04:
        return common.permuted_pairs_grammar(r)
    if k < 0.10:
        return common.dag_grammar(r)
    if k > 0.92:
        return common.described_groups_grammar(r)
    if k < 0.20:
        # top-level only: inside a word the family can juxtapose literals within a group, which the pinned
        # compiler rejects (finding KF-I, owned by C08); callers of random_grammar expect accepted grammars
        return common.loopy_grammar(r, inword=False)
    depth = r.choice([2, 3, 3, 4, 4, 5, 6])
    g = gen.Gen(r, depth=depth, ndefs=(0, r.choice([2, 4, 8])), specs=r.random() < 0.4,
                builtins=r.random() < 0.3, max_width=r.choice([2, 3, 4]),
                fallbacks=r.choice([0.05, 0.12, 0.25]), p_word=r.choice([0.1, 0.2, 0.35]))
    return g.grammar()


def check_one(P, stmts, shell, acc, origin):
    text, _, _ = gast.print_grammar(stmts)
    ans = P.ask('g', shell, 'dfa', text)
    acc.evals += 1
    stage = ans.get('stage')
    if stage != 'done':
        acc.count('not_accepted_' + str(stage))
        if stage in ('crash', 'panic'):
            acc.count('crashes_left_to_C06')
        return
    acc.count('programs')
    acc.count('programs_' + shell)
    for which in ('dfa_raw', 'dfa_min'):
        w = common.compare_with_reference(stmts, shell, ans[which], which)
        if w is not None:
            acc.count('disagreements_checked')
            w.update({'sig': 'language-mismatch:' + which, 'grammar': text, 'shell': shell,
                      'origin': origin, 'stmts': stmts})
            acc.violation(w)
            return
    nstates = len({t[0] for t in ans['dfa_min']['main']['tr']} | {t[2] for t in ans['dfa_min']['main']['tr']})
    acc.count('states_min_total', nstates)
    if ans['dfa_min']['subs']:
        acc.count('programs_with_nested_automata')
    if nstates >= 2:
        acc.seen((text, shell))
    acc.sample({'grammar': text, 'shell': shell, 'min_states': nstates,
                'nested_automata': len(ans['dfa_min']['subs'])})


def run_job(job, acc):
    P = probe.Probe()
    try:
        if job[0] == 'exh':
            _, n, shard = job
            for stmts in common.exhaustive_grammars(n, shard, NSHARDS):
                for shell in common.SHELLS:
                    check_one(P, stmts, shell, acc, 'exhaustive<=%d' % n)
            acc.count('exhaustive_trees_done')
        elif job[0] == 'loopy':
            _, s, per = job
            r = random.Random(s)
            for i in range(per):
                check_one(P, common.loopy_grammar(r), 'bash', acc, 'loopy seed=%d #%d' % (s, i))
        else:
            _, s, per = job
            r = random.Random(s)
            for i in range(per):
                stmts = random_grammar(r)
                for shell in common.SHELLS:
                    check_one(P, stmts, shell, acc, 'random seed=%d #%d' % (s, i))
    finally:
        P.close()


def replay(w, acc):
    P = probe.Probe()
    try:
        stmts = tuplify(w['stmts'])
        check_one(P, stmts, w['shell'], acc, 'replay')
    finally:
        P.close()


def tuplify(x):
    if isinstance(x, list):
        return tuple(tuplify(i) for i in x)
    return x
