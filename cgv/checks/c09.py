"""C09 - a typed word never has two readings; `||` is transparent to matching."""
import itertools
import random

from .. import gast, gen, probe, refsem, refrun, bashrun, automata as A, compile as comp
from ..gast import lit, nt, cmd, seq, alt, fb, opt, many, call, defn
from . import common, c01

PROPERTY = 'C09'
LEVEL = 'exploration'
WORKERS = 3
RULE = ('(a) for every accepted grammar of a profile biased to `||` branches and call variants starting with the '
        'same literal, the same literal at two levels, within-word expressions repeated with permuted alternatives, '
        'through different definitions or with redundant grouping, the automaton compiled by the real pipeline '
        '(cgprobe dump) is searched, state by state and pair by pair of outgoing items with different targets, for a '
        'concrete word both items accept (same literal text; literal accepted by a nested automaton; common string '
        'of two nested automata on literal-only paths; same command). (b) the grammar and its `|` variant (every || '
        'replaced by |) are compiled by the real binary and run in bash on the same command lines: the return code '
        'agrees, one offers nothing iff the other does, the || candidates are a subset of the | candidates and '
        'contain every | candidate whose branch index is minimal. non-trivial = (a) automaton with >= 1 state that '
        'has two items sharing a first character or kind, (b) command line with >= 1 complete word; distinct by hash')
RULE += ' ' + '(c) for every grammar of the profile (incl. definitions that reference others only below ||, [], ... or inside a word, and || whose earlier branch begins with a within-word expression) the compiled automaton with every || index erased must accept the same language as the compiled automaton of the | spelling (canonical minimal forms compared).'
ASSUMPTIONS = ['(a) ignores paths through commands and placeholders inside nested automata, so it under-approximates',
               'branch indices for (b) come from cgv/refsem.py']
MIN_EVALS = {'quick': 1500, 'thorough': 15000}


# ---------------------------------------------------------------------------
# (a) invariant on the dumped automaton

def nested_literal_words(flat, limit=400):
    """Words accepted by a nested automaton along literal-only paths (bounded enumeration)."""
    delta = {}
    for a, i, b in flat['tr']:
        inp = flat['inputs'][i]
        if inp['k'] == 'L':
            delta.setdefault(a, []).append((inp['t'], b))
    acc = set(flat['acc'])
    out = set()
    stack = [(flat['start'], '', 0)]
    while stack and len(out) < limit:
        s, w, d = stack.pop()
        if s in acc:
            out.add(w)
        if d >= 6:
            continue
        for t, b in delta.get(s, []):
            stack.append((b, w + t, d + 1))
    return out


def accepts_literal_only(flat, word):
    delta = {}
    for a, i, b in flat['tr']:
        inp = flat['inputs'][i]
        if inp['k'] == 'L':
            delta.setdefault(a, []).append((inp['t'], b))
    acc = set(flat['acc'])
    stack = [(flat['start'], 0)]
    seen = set()
    while stack:
        s, i = stack.pop()
        if (s, i) in seen:
            continue
        seen.add((s, i))
        if i == len(word) and s in acc:
            return True
        for t, b in delta.get(s, []):
            if t and word.startswith(t, i):
                stack.append((b, i + len(t)))
    return False


def flat_key(flat):
    return (flat['start'], tuple(sorted(flat['acc'])), tuple(map(tuple, flat['tr'])),
            tuple(tuple(sorted(i.items())) for i in flat['inputs']))


def two_readings(dump):
    """-> list of (sig, detail) for states of the (minimised) automaton with two readings."""
    out = []
    autos = [('main', dump['main'])]
    for sid, flat in dump['subs'].items():
        autos.append(('nested %s' % sid, flat))
    words_cache = {}
    for name, flat in autos:
        by_state = {}
        for a, i, b in flat['tr']:
            by_state.setdefault(a, []).append((flat['inputs'][i], b))
        for st, items in by_state.items():
            for (x, tx), (y, ty) in itertools.combinations(items, 2):
                if tx == ty:
                    continue
                kx, ky = x['k'], y['k']
                if kx == '*' or ky == '*':
                    continue
                if kx == 'L' and ky == 'L':
                    if x['t'] == y['t']:
                        out.append(('same-literal-two-levels' if x['d'] == y['d'] else 'same-literal-two-descriptions',
                                    {'automaton': name, 'state': st, 'word': x['t'], 'items': [x, y]}))
                elif kx in 'CA' and ky in 'CA':
                    if x['c'] == y['c']:
                        out.append(('same-command-two-levels', {'automaton': name, 'state': st, 'items': [x, y]}))
                elif {kx, ky} == {'L', 'S'}:
                    l, s = (x, y) if kx == 'L' else (y, x)
                    # a literal has priority over a within-word expression by documentation: not two readings
                    continue
                elif kx == 'S' and ky == 'S':
                    fx, fy = dump['subs'][str(x['sub'])], dump['subs'][str(y['sub'])]
                    if x['sub'] == y['sub']:
                        out.append(('same-nested-automaton-two-levels', {'automaton': name, 'state': st, 'items': [x, y]}))
                        continue
                    for sub in (x['sub'], y['sub']):
                        if sub not in words_cache:
                            words_cache[sub] = nested_literal_words(dump['subs'][str(sub)])
                    common_words = words_cache[x['sub']] & words_cache[y['sub']]
                    if not common_words:
                        continue
                    cx = refsem.dump_canon({'main': fx, 'subs': {}})
                    cy = refsem.dump_canon({'main': fy, 'subs': {}})
                    w = sorted(common_words, key=lambda z: (len(z), z))[0]
                    if cx == cy:
                        if flat_key(fx) == flat_key(fy):
                            sig = 'duplicate-identical-nested-automata'
                        else:
                            sig = 'same-words-different-spelling'
                    elif strip_levels(cx) == strip_levels(cy):
                        sig = 'same-within-word-expression-two-levels'
                    else:
                        sig = 'overlapping-within-word-expressions'
                    out.append((sig, {'automaton': name, 'state': st, 'word': w, 'items': [x, y]}))
    return out


def c09_strip(canon):
    return strip_levels(canon)


def strip_levels(canon):
    n, acc, trans = canon
    def f(sym):
        if sym[0] == 'L':
            return ('L', sym[1], sym[2])
        if sym[0] in 'CA':
            return (sym[0], sym[1])
        return sym
    return (n, acc, tuple((a, f(s), b) for a, s, b in trans))


# ---------------------------------------------------------------------------
# generator bias

def biased_grammar(r, ledger=None):
    L = ['a', 'b', 'c', 'x', 'y', 'go', 'run']
    vals = ['p', 'q', 'rr', 's']

    def wexpr(prefix, vs, style):
        vs = list(vs)
        if style == 'perm':
            r.shuffle(vs)
        v = alt(*[lit(x) for x in vs])
        if style == 'group' and len(vs) > 2:
            v = alt(lit(vs[0]), alt(*[lit(x) for x in vs[1:]]))
        return ('word', (lit(prefix), v))

    stmts = []
    kind = r.random()
    if kind < 0.12:
        # an earlier || branch begins with a within-word expression, later branches with plain literals or other
        # words: a typed prefix that fits nothing of the earlier branch must fall through to the next one
        pre = r.choice(['--x=', '-k', 'o:'])
        w = wexpr(pre, r.sample(vals, r.randint(2, 3)), 'same')
        later = [lit(r.choice(['foo', 'far', 'go'])), seq(lit('zed'), lit('t1')),
                 wexpr(r.choice(['+y=', 'q:']), r.sample(vals, 2), 'same')]
        r.shuffle(later)
        brs = [seq(w, lit('t0')) if r.random() < 0.5 else w] + later[:r.randint(1, 3)]
        if r.random() < 0.3:
            brs.insert(0, lit('first'))
        e = fb(*brs)
        if r.random() < 0.4:
            e = seq(lit('head'), e, lit('end'))
        return [call('cmd', e)]
    if kind < 0.2:
        # inside a later || branch: a repeated or optional item that also begins a sibling alternative with another
        # continuation - every occurrence belongs to that one branch, whatever operator it sits under
        x = r.choice(['-v', 'again', 'k'])
        wrap = r.choice([many, opt, lambda e: many(opt(e)), lambda e: seq(e, opt(e))])
        sib = seq(lit(x), lit(r.choice(['--version', 'then', 't9'])))
        inner = alt(wrap(lit(x)), sib) if r.random() < 0.5 else alt(sib, wrap(lit(x)))
        first = r.choice([lit('--help'), seq(lit('h'), lit('e')), alt(lit('a1'), lit('a2'))])
        brs = [first, inner]
        if r.random() < 0.4:
            brs.insert(1, lit('mid'))
        e = fb(*brs)
        if r.random() < 0.4:
            e = seq(e, opt(lit('end')))
        return [call('cmd', e)]
    if kind < 0.3:
        # same literal starts several || branches / call variants
        h = r.choice(L)
        branches = [seq(lit(h), lit(r.choice(L + ['t1', 't2']))) for _ in range(r.randint(2, 3))]
        if r.random() < 0.5:
            branches.append(lit(r.choice(L)))
        r.shuffle(branches)
        e = fb(*branches) if r.random() < 0.6 else alt(fb(*branches[:2]), *branches[2:])
        stmts.append(call('cmd', e))
        if r.random() < 0.4:
            stmts.append(call('cmd', seq(lit(h), lit('other'))))
    elif kind < 0.6:
        # within-word expressions repeated: identical, permuted, regrouped, through definitions
        vs = r.sample(vals, r.randint(2, 4))
        pre = r.choice(['--a=', '-k', 'o:'])
        styles = [r.choice(['same', 'perm', 'group', 'def']) for _ in range(r.randint(2, 3))]
        brs = []
        for i, stl in enumerate(styles):
            if stl == 'def':
                nm = 'V%d' % i
                vv = list(vs)
                if r.random() < 0.5:
                    r.shuffle(vv)
                stmts.append(defn(nm, None, alt(*[lit(x) for x in vv])))
                w = ('word', (lit(pre), nt(nm)))
            else:
                w = wexpr(pre, vs, stl)
            brs.append(seq(w, lit('t%d' % i)))
        e = alt(*brs) if r.random() < 0.6 else fb(*brs)
        stmts.insert(0, call('cmd', e))
    else:
        g = gen.Gen(r, depth=r.choice([2, 3]), ndefs=(0, 3), fallbacks=0.35, top_lits=L, max_width=3, p_word=0.25,
                    cmd_factory=ledger.factory if ledger else None, cmds=ledger is not None)
        stmts = g.grammar()
    return stmts


def to_alt(e):
    def f(x):
        if x[0] == 'fb':
            return ('alt', x[1])
        return x
    return gast.map_expr(f, e)


def alt_variant(stmts):
    out = []
    for s in stmts:
        if s[0] == 'call':
            out.append(('call', s[1], to_alt(s[2])))
        else:
            out.append(('def', s[1], s[2], to_alt(s[3])))
    return out


# ---------------------------------------------------------------------------

def make_jobs(tier, seed):
    q = tier == 'quick'
    jobs = [('a', seed * 1000003 + i, 120 if q else 400) for i in range(16 if q else 64)]
    jobs += [('b', seed * 1000003 + 700 + i, 14 if q else 20) for i in range(30 if q else 300)]
    return jobs


def check_a(P, stmts, acc, origin):
    text, _, _ = gast.print_grammar(stmts)
    ans = P.ask('g', 'bash', 'dfa', text)
    acc.evals += 1
    if ans.get('stage') != 'done':
        acc.count('a_not_accepted_' + str(ans.get('stage')))
        return None
    found = two_readings(ans['dfa_min'])
    acc.count('a_automata_searched')
    acc.seen(('a', text))
    if any(sig.endswith('two-levels') for sig, _ in found):
        # the reference labelling says which items the grammar itself expects at two levels of one point
        try:
            ref = refsem.reference_dfa(stmts, 'bash')
            genuine = set()

            def scan(d):
                for row in d['delta'].values():
                    seen = {}
                    for sym in row:
                        if sym[0] == 'L':
                            seen.setdefault(('L', sym[1]), set()).add(sym[3])
                        elif sym[0] in 'CA':
                            seen.setdefault(('C', sym[1]), set()).add(sym[2])
                        elif sym[0] == 'S':
                            seen.setdefault(('S', c09_strip(sym[1])), set()).add(sym[2])
                            scan(A.dfa_from_canon(sym[1]))
                    for k, lv in seen.items():
                        if len(lv) > 1:
                            genuine.add(k[:2] if k[0] != 'S' else ('S',))
            scan(ref)
        except Exception:
            genuine = None
        if genuine is not None:
            fixed = []
            for sig, detail in found:
                if sig == 'same-literal-two-levels' and ('L', detail['items'][0]['t']) not in genuine:
                    sig = 'item-at-two-levels-although-the-grammar-has-it-at-one'
                elif sig == 'same-command-two-levels' and ('C', detail['items'][0]['c']) not in genuine:
                    sig = 'item-at-two-levels-although-the-grammar-has-it-at-one'
                elif sig in ('same-within-word-expression-two-levels', 'same-nested-automaton-two-levels') and ('S',) not in genuine:
                    sig = 'item-at-two-levels-although-the-grammar-has-it-at-one'
                fixed.append((sig, detail))
            found = fixed
    for sig, detail in found:
        acc.violation({'sig': sig, 'part': 'a', 'grammar': text, 'shell': 'bash', 'what': 'two readings of one word',
                       'witness': detail, 'origin': origin, 'stmts': stmts})
    return found


def level_free_canon(dump):
    """Canonical form of the compiled automaton's language with every `||` index erased (the same item in two
    branches becomes one symbol; its continuations are united by the subset construction)."""
    def z(flat):
        f = dict(flat)
        f['inputs'] = [dict(i, fb=0) if 'fb' in i else i for i in flat['inputs']]
        return f
    return refsem.dump_canon({'main': z(dump['main']), 'subs': {k: z(v) for k, v in dump['subs'].items()}})


def definition_under_fallback_grammar(r):
    """Definitions whose only reference to another definition sits below `||`, `[]`, `...` or inside a word."""
    inner = alt(lit('low'), lit('high')) if r.random() < 0.6 else seq(lit('lv'), opt(lit('x')))
    k = r.random()
    ref = nt('LEVEL')
    if k < 0.4:
        body = fb(ref, lit('custom'))
    elif k < 0.55:
        body = fb(lit('custom'), ref)
    elif k < 0.7:
        body = fb(lit('custom'), seq(lit('lvl'), ref), lit('zz'))
    elif k < 0.8:
        body = seq(lit('m'), opt(fb(ref, lit('custom'))))
    elif k < 0.9:
        body = many(fb(lit('custom'), ref))
    else:
        body = fb(('word', (lit('l='), ref)), lit('custom')) if inner[0] == 'alt' else fb(ref, lit('custom'))
    stmts = [call('cmd', seq(nt('MODE'), lit('end'))), defn('MODE', None, body), defn('LEVEL', None, inner)]
    if r.random() < 0.4:
        stmts[0] = call('cmd', fb(seq(lit('go'), nt('MODE')), lit('stop')))
    if r.random() < 0.3:
        stmts.insert(1, defn('OUTER', None, nt('MODE')))
        stmts[0] = call('cmd', seq(nt('OUTER'), lit('end')))
    r.shuffle(stmts)
    return stmts


def check_c(P, stmts, acc, origin):
    """`||` is transparent to matching, decided on the compiled automata: the language of the grammar with every
    `||` index erased equals the language of the grammar in which `||` is spelt `|`."""
    g2 = alt_variant(stmts)
    t1, _, _ = gast.print_grammar(stmts)
    t2, _, _ = gast.print_grammar(g2)
    if t1 == t2:
        return
    a1 = P.ask('g', 'bash', 'dfa', t1)
    a2 = P.ask('h', 'bash', 'dfa', t2)
    acc.evals += 1
    if a1.get('stage') != 'done' or a2.get('stage') != 'done':
        acc.count('c_variant_not_accepted')
        return
    acc.count('c_pairs_compared')
    acc.seen(('c', t1))
    c1 = level_free_canon(a1['dfa_min'])
    c2 = level_free_canon(a2['dfa_min'])
    if c1 != c2:
        w = A.distinguish(A.dfa_from_canon(c1), A.dfa_from_canon(c2))
        acc.violation({'sig': 'fallback-changes-what-is-matched', 'part': 'c', 'grammar': t1, 'variant': t2,
                       'shell': 'bash', 'what': 'the compiled automaton of the || grammar (levels erased) and that of '
                       'the | grammar accept different word sequences',
                       'witness': [str(x)[:80] for x in (w[0] if w else [])] if w else None,
                       'accepted_by': (w[1] if w else None), 'stmts': stmts, 'origin': origin})


def run_job(job, acc):
    r = random.Random(job[1])
    if job[0] == 'a':
        P = probe.Probe()
        try:
            for i in range(job[2]):
                g = definition_under_fallback_grammar(r) if i % 8 == 7 else biased_grammar(r)
                check_a(P, g, acc, 'a seed=%d #%d' % (job[1], i))
                check_c(P, g, acc, 'c seed=%d #%d' % (job[1], i))
        finally:
            P.close()
        return
    # (b) execution against the | variant
    ledger = c01.CmdLedger()
    stmts = biased_grammar(r, ledger)
    g2 = alt_variant(stmts)
    t1, _, _ = gast.print_grammar(stmts)
    t2, _, _ = gast.print_grammar(g2)
    if t1 == t2:
        acc.count('b_grammar_without_fallback')
        return
    P = probe.Probe()
    try:
        found = check_a(P, stmts, acc, 'b seed=%d' % job[1])
    finally:
        P.close()
    if found is None:
        return
    rc1, out1, _ = comp.compile_text(t1, 'bash')
    rc2, out2, _ = comp.compile_text(t2, 'bash')
    if rc1 != 0 or rc2 != 0:
        acc.count('b_variant_not_accepted')
        if rc1 == 0 and rc2 != 0:
            acc.count('b_only_alt_variant_rejected')
        return
    M2 = refrun.Machine(g2, ledger.outputs, 'bash')
    M1 = refrun.Machine(stmts, ledger.outputs, 'bash')
    vocab = sorted({x[1] for st in stmts for x in gast.walk(st[2] if st[0] == 'call' else st[3]) if x[0] == 'lit'})
    queries = c01.make_queries(M2, r, job[2], vocab)
    # every first character of the vocabulary as the cursor word at the first position (and behind a leading fixed
    # word): the prefix that fits nothing of an earlier branch but something of a later one
    lead = [['head']] if 'head' in vocab else []
    firsts = sorted({v[:1] for v in vocab if v})
    for walk in [[]] + lead:
        for c in firsts[:8]:
            queries.append({'words': ['cmd'] + walk + [c], 'cword': len(walk) + 1, 'wb': ''})
    for q in queries:
        q['wb'] = ''
    if not queries:
        return
    res1 = bashrun.run_session(out1.decode(), 'cmd', queries)
    res2 = bashrun.run_session(out2.decode(), 'cmd', queries)
    if res1['timed_out'] or res2['timed_out'] or res1['source_rc'] != 0 or res2['source_rc'] != 0:
        acc.inconclusive.append('bash session failed')
        return
    known_cause = sorted({s for s, _ in found})
    for q, o1, o2 in zip(queries, res1['results'], res2['results']):
        if o1 is None or o2 is None:
            continue
        acc.evals += 1
        acc.count('b_command_lines')
        words = q['words'][1:]
        if len(words) > 1:
            acc.seen(('b', t1, words))
        c1 = {c[:-1] if c.endswith(' ') else c for c in o1['reply']}
        c2 = {c[:-1] if c.endswith(' ') else c for c in o2['reply']}
        problem = None
        if o1['rc'] != o2['rc']:
            problem = 'return code %d with ||, %d with |' % (o1['rc'], o2['rc'])
        elif bool(c1) != bool(c2):
            problem = 'one variant offers nothing: || %s, | %s' % (sorted(c1), sorted(c2))
        elif not c1 <= c2:
            problem = '|| offers %s which | does not' % sorted(c1 - c2)
        else:
            # minimal-branch clause, branch indices from the reference labelling of G
            ref = M1.run(words)
            if ref['matched'] and c2:
                row = M1.row(ref['state'])
                level_of = {}
                for sym in row:
                    if sym[0] == 'L':
                        level_of.setdefault(sym[1], []).append(sym[3])
                    elif sym[0] in 'CA':
                        for c in M1.cands(sym[1]):
                            level_of.setdefault(c, []).append(sym[2])
                    elif sym[0] == 'S':
                        # what a within-word expression of that branch offers for the typed text
                        for c in M1.nested_complete(sym[1], words[-1]):
                            level_of.setdefault(c, []).append(sym[2])
                known = [(c, min(level_of[c])) for c in c2 if c in level_of]
                if known:
                    m = min(l for _, l in known)
                    must = {c for c, l in known if l == m}
                    if not must <= c1:
                        problem = 'candidates of the first matching branch missing with ||: %s' % sorted(must - c1)
        if problem:
            sig = 'fallback-not-transparent'
            if known_cause:
                # part (a) reported two readings in this very automaton; what bash does with them
                # is a consequence, attributed to those reports
                sig += ':consequence-of-two-readings'
            acc.violation({'sig': sig, 'part': 'b', 'grammar': t1, 'variant': t2, 'shell': 'bash',
                           'query': {'words': q['words'], 'cword': q['cword']}, 'what': problem,
                           'observed': {'||': sorted(c1), '|': sorted(c2), 'rc': [o1['rc'], o2['rc']]},
                           'two_readings_in_this_automaton': known_cause,
                           'origin': 'b seed=%d' % job[1]})
    acc.sample({'grammar': t1, 'alt_variant': t2, 'queries': len(queries)})


def replay(w, acc):
    P = probe.Probe()
    try:
        ans = P.ask('g', 'bash', 'dfa', w['grammar'])
        acc.evals += 1
        if ans.get('stage') == 'done':
            for sig, detail in two_readings(ans['dfa_min']):
                print(sig, detail)
                if w.get('part') == 'a':
                    acc.violation({'sig': sig, 'witness': detail})
    finally:
        P.close()
    if w.get('part') == 'c':
        from .c02 import tuplify
        P = probe.Probe()
        try:
            check_c(P, [tuplify(x) for x in w['stmts']], acc, 'replay')
        finally:
            P.close()
    if w.get('part') == 'b':
        rc1, out1, _ = comp.compile_text(w['grammar'], 'bash')
        rc2, out2, _ = comp.compile_text(w['variant'], 'bash')
        q = {'words': w['query']['words'], 'cword': w['query']['cword'], 'wb': ''}
        o1 = bashrun.run_session(out1.decode(), 'cmd', [q])['results'][0]
        o2 = bashrun.run_session(out2.decode(), 'cmd', [q])['results'][0]
        print('||', o1, '|', o2)
        if o1['rc'] != o2['rc'] or bool(o1['reply']) != bool(o2['reply']):
            acc.violation({'sig': w['sig'], 'observed': [o1, o2]})
