"""C05 - print/parse round trip."""
import random

from .. import gast, gen, probe, treecmp
from ..gast import lit, nt, cmd

PROPERTY = 'C05'
LEVEL = 'exploration'
RULE = ('a generator AST is printed with the minimum of parentheses the documented precedences need, once '
        'canonically and K times with random legal layout (blanks, tabs, newlines, form feeds, # comments, '
        '= / ::=, optional final ;), parsed by the real Grammar::parse through cgprobe, and the parsed tree '
        '(spans ignored) must equal the AST: operators, arity, nesting, literal / description / command '
        'text, statement kinds, nonterminal and shell names. sources: every tree with <= N nodes over '
        '{a, b "d", <X>, {{{c}}}} x {seq,|,||,word,[],...,descr} plus its n-ary flattening; random deeper '
        'trees whose literals range over all regular characters, every backslash escape and dot runs, '
        'descriptions over printable ASCII, UTF-8, \\" and \\\\. non-trivial = tree with >= 3 nodes; '
        'distinct by hash of the printed text')
ASSUMPTIONS = ['the printer (cgv/gast.py) implements the precedences documented in README.md',
               'inside a word, juxtaposition and a parenthesised sequence are one node kind']
MIN_EVALS = {'quick': 50000, 'thorough': 500000}
NSHARDS = 64

LEAVES = [lit('a'), lit('b', 'd'), nt('X'), cmd('c')]
REG = 'abcxyzABZ019' + gast.REGULAR_PUNCT
DESC_CHARS = 'abc XYZ09!#$%&\'()*+,-./:;<=>?@[]^_`{|}~\\"\té→日'
NAME_CHARS = 'ABCxyz_-09 .,:;!?/=()[]{}|"\'$é\n\t'


def enum_trees(n):
    """Trees with exactly n nodes; desc is never applied to a bare literal."""
    if n == 1:
        yield from LEAVES
        return
    for c in enum_trees(n - 1):
        yield ('opt', c)
        yield ('many', c)
        if not (c[0] == 'lit' and c[2] is None):
            yield ('desc', c, 'dd')
    for op in ('seq', 'alt', 'fb', 'word'):
        for k in range(1, n - 1):
            for left in enum_trees(k):
                for right in enum_trees(n - 1 - k):
                    yield (op, (left, right))


def flatten_nary(e):
    """a (b c) -> a b c : the n-ary reading of right-nested binary nodes."""
    def f(x):
        if x[0] in ('seq', 'alt', 'fb', 'word'):
            items = []
            for c in x[1]:
                if c[0] == x[0]:
                    items.extend(c[1])
                else:
                    items.append(c)
            return (x[0], tuple(items))
        return x
    return gast.map_expr(f, e)


def rand_lit_text(r, allow_hash_start=False):
    n = r.choice([1, 1, 2, 3, 4, 6])
    out = []
    for i in range(n):
        x = r.random()
        if x < 0.55:
            out.append(r.choice(REG))
        elif x < 0.8:
            out.append(r.choice(gast.ESCAPABLE))
        else:
            out.append('.' * r.choice([1, 1, 2, 3, 4]))
    s = ''.join(out)
    if s.startswith('#') and not allow_hash_start:
        s = 'h' + s
    return s


def rand_descr(r):
    n = r.choice([0, 1, 3, 6, 12])
    return ''.join(r.choice(DESC_CHARS) for _ in range(n))


def rand_name(r, forbid='>'):
    n = r.choice([1, 2, 4, 7])
    s = ''.join(r.choice(NAME_CHARS) for _ in range(n))
    for ch in forbid:
        s = s.replace(ch, '_')
    return s


def rand_cmd(r):
    parts = ['echo', 'foo', '$1', '"a b"', '{', '}', '}}', '|', ';', "'x'", '\n', '\\', '#', '<', '>',
             'é', '(', ')', '[[', ']]', '`ls`']
    n = r.choice([0, 1, 2, 4])
    s = ' '.join(r.choice(parts) for _ in range(n)).strip()
    while '}}}' in s:
        s = s.replace('}}}', '}} }')
    return s


def rand_tree(r, depth, in_word=False):
    if depth <= 0 or r.random() < 0.2:
        x = r.random()
        if x < 0.55:
            d = rand_descr(r) if r.random() < 0.3 else None
            return lit(rand_lit_text(r), d)
        if x < 0.8:
            return nt(rand_name(r))
        return cmd(rand_cmd(r))
    x = r.random()
    if x < 0.2:
        return ('seq', tuple(rand_tree(r, depth - 1) for _ in range(r.randint(2, 4))))
    if x < 0.38:
        return ('alt', tuple(rand_tree(r, depth - 1) for _ in range(r.randint(2, 4))))
    if x < 0.5:
        return ('fb', tuple(rand_tree(r, depth - 1) for _ in range(r.randint(2, 3))))
    if x < 0.68:
        return ('word', tuple(rand_tree(r, depth - 1, True) for _ in range(r.randint(2, 4))))
    if x < 0.8:
        return ('opt', rand_tree(r, depth - 1))
    if x < 0.9:
        return ('many', rand_tree(r, depth - 1))
    c = rand_tree(r, depth - 1)
    if c[0] == 'lit' and c[2] is None:
        return ('lit', c[1], rand_descr(r))
    return ('desc', c, rand_descr(r))


def rand_grammar(r):
    stmts = []
    for i in range(r.randint(1, 4)):
        if r.random() < 0.5:
            name = rand_lit_text(r)
            stmts.append(('call', name, rand_tree(r, r.randint(0, 5))))
        else:
            sh = None
            if r.random() < 0.3:
                sh = r.choice(['bash', 'fish', 'zsh', 'pwsh', 'ksh', 'B a', 'x@y'])
            stmts.append(('def', rand_name(r, '>@'), sh, rand_tree(r, r.randint(0, 5))))
    return stmts


def make_jobs(tier, seed):
    jobs = []
    n = 6 if tier == 'quick' else 7
    for s in range(NSHARDS):
        jobs.append(('exh', n, s, seed))
    nrand = 12800 if tier == 'quick' else 256000
    for s in range(NSHARDS):
        jobs.append(('rand', seed * 1000003 + s, nrand // NSHARDS))
    return jobs


def roundtrip(P, stmts, acc, origin, layouts, lr):
    exp = treecmp.expected_statements(stmts)
    variants = [('canonical', gast.print_grammar(stmts)[0])]
    for i in range(layouts):
        variants.append(('layout', gast.print_grammar(stmts, layout=lr, enc_rng=lr,
                                                      last_semicolon=lr.random() < 0.7)[0]))
    nodes = sum(gast.size(st[2] if st[0] == 'call' else st[3]) for st in stmts)
    for kind, text in variants:
        acc.evals += 1
        ans = P.ask('g', 'bash', 'parse', text)
        if 'parse' not in ans:
            acc.violation({'sig': 'roundtrip-rejected:' + kind, 'grammar': text, 'expected': repr(exp)[:1500],
                           'observed': {k: ans.get(k) for k in ('stage', 'error', 'panic', 'rc')},
                           'origin': origin, 'stmts': stmts})
            return
        got = treecmp.parsed_statements(ans['parse'])
        if got != exp:
            d = treecmp.first_difference(tuple(exp), tuple(got))
            acc.violation({'sig': 'roundtrip-tree-differs:' + kind, 'grammar': text,
                           'expected': repr(exp)[:1500], 'observed': repr(got)[:1500],
                           'what': d, 'origin': origin, 'stmts': stmts})
            return
        if nodes >= 3:
            acc.seen(text)
        acc.count('parsed_' + kind)
    acc.count('trees')
    acc.count('nodes', nodes)
    if len(variants) > 1:
        acc.sample({'ast': repr(stmts)[:300], 'canonical': variants[0][1], 'layout': variants[-1][1]})


def run_job(job, acc):
    P = probe.Probe()
    try:
        if job[0] == 'exh':
            _, n, shard, seed = job
            lr = random.Random(seed * 7919 + shard)
            i = 0
            for k in range(1, n + 1):
                for e in enum_trees(k):
                    i += 1
                    if i % NSHARDS != shard:
                        continue
                    roundtrip(P, [('call', 'cmd', e)], acc, 'exhaustive<=%d' % n, 1, lr)
                    f = flatten_nary(e)
                    if f != e:
                        roundtrip(P, [('call', 'cmd', f)], acc, 'exhaustive-nary<=%d' % n, 1, lr)
                    if i % 7 == 0:
                        roundtrip(P, [('def', 'N', None if i % 2 else 'bash', e)], acc, 'exhaustive-def', 0, lr)
            acc.count('exhaustive_shards_done')
        else:
            _, s, per = job
            r = random.Random(s)
            for i in range(per):
                roundtrip(P, rand_grammar(r), acc, 'random seed=%d #%d' % (s, i), 2, r)
    finally:
        P.close()


def replay(w, acc):
    from .c02 import tuplify
    P = probe.Probe()
    try:
        stmts = [tuplify(s) for s in w['stmts']]
        acc.evals += 1
        ans = P.ask('g', 'bash', 'parse', w['grammar'])
        exp = treecmp.expected_statements(stmts)
        if 'parse' not in ans:
            acc.violation({'sig': 'roundtrip-rejected', 'grammar': w['grammar'], 'observed': ans})
            return
        got = treecmp.parsed_statements(ans['parse'])
        print('expected:', exp)
        print('observed:', got)
        if got != exp:
            acc.violation({'sig': 'roundtrip-tree-differs', 'grammar': w['grammar'],
                           'what': treecmp.first_difference(tuple(exp), tuple(got))})
    finally:
        P.close()
