"""C10 - output is a pure function of the input: byte-identical across runs and processes."""
import os
import random
import shutil
import subprocess

from .. import gast, gen, paths, probe, bashrun
from . import common, c02

PROPERTY = 'C10'
LEVEL = 'exploration'
WORKERS = 4
RULE = ('the bundled examples and random large grammars (depth <= 6, up to 12 definitions, several within-word '
        'automata of which some share a shape, commands, descriptions, || levels) are compiled for each of the four '
        'shells K times in freshly started processes of the real binary - empty environment, an environment of '
        '1500 variables, different HOME / LANG / working directory, address-space randomisation on and off '
        '(setarch -R), input from a path and from stdin - each writing the script, the --dfa and the --regex '
        'file, and R times inside one cgprobe process. All script / dfa / regex bytes of one (grammar, shell) '
        'must be identical. non-trivial = automaton with >= 8 transitions; distinct by hash of (text, shell)')
RULE += ' ' + 'Families: 25-60 permuted within-word pairs per grammar; several external commands - plain, shell-specific, built-in - offered by one state, at one and at several || levels, at top level and inside words.'
ASSUMPTIONS = ['measured in this sandbox: hashbrown 0.13 / ahash 0.8.3 (no runtime-rng) and ustr hash with fixed keys, so '
               'the work-list HashSets of dfa.rs iterate in one fixed order here; the monitor has teeth against std '
               'RandomState containers, address-keyed ordering, time and environment reaching an output path',
               '/proc/sys/kernel/randomize_va_space is read and reported in the counters']
MIN_EVALS = {'quick': 600, 'thorough': 6000}


def many_commands_grammar(r):
    """States that offer several external commands at once (plain, shell-specific for every shell, built-in
    PATH / DIRECTORY), at one and at several `||` levels, at top level and inside words: every per-state list of
    command ids in every emitter has more than one element."""
    from ..gast import lit, nt, cmd, seq, alt, fb, opt, many, call, defn
    names = r.sample(['HOST', 'REMOTE', 'BRANCH', 'TAG', 'USER', 'Q1', 'zone', 'KEY'], r.randint(3, 7))
    stmts = []
    for i, n in enumerate(names):
        k = r.random()
        if k < 0.5:
            for sh in common.SHELLS:
                stmts.append(defn(n, sh, cmd('echo %s_%s' % (n, sh))))
            if r.random() < 0.5:
                stmts.append(defn(n, None, cmd('echo %s_plain' % n)))
        elif k < 0.8:
            stmts.append(defn(n, None, cmd('echo %s_plain' % n)))
        else:
            stmts.append(defn(n, r.choice(common.SHELLS), cmd('echo %s_one' % n)))
    refs = [nt(n) for n in names] + [nt('PATH'), nt('DIRECTORY')][:r.randint(0, 2)]
    r.shuffle(refs)
    cut = r.randint(1, len(refs))
    first = alt(*refs[:cut])
    e = first if cut == len(refs) else fb(first, alt(*refs[cut:]))
    body = seq(opt(lit('--verbose')), e, opt(('word', (lit('--depth='), alt(*[nt(n) for n in r.sample(names, min(3, len(names)))])))),
               lit('done'))
    if r.random() < 0.4:
        body = seq(body, many(alt(*refs[:3])))
    stmts.append(call('cmd', body))
    r.shuffle(stmts)
    return stmts


def big_grammar(r):
    k = r.random()
    if k < 0.3:
        return common.permuted_pairs_grammar(r, r.randint(25, 60))
    if k < 0.5:
        return many_commands_grammar(r)
    g = gen.Gen(r, depth=r.choice([4, 5, 6]), ndefs=(3, 12), specs=r.random() < 0.5, builtins=r.random() < 0.4,
                max_width=4, fallbacks=0.2, p_word=0.3)
    return g.grammar()


def run_once(wd, text, shell, variant, tag):
    """One fresh process; returns (rc, script, dfa, regex)."""
    ipath = os.path.join(wd, 'g.usage')
    with open(ipath, 'w') as f:
        f.write(text)
    d = os.path.join(wd, 'o%s' % tag)
    os.makedirs(d, exist_ok=True)
    dfa, rx = os.path.join(d, 'dfa.dot'), os.path.join(d, 'rx.dot')
    args = [paths.COMPLGEN, '--' + shell, '-', '--dfa', dfa, '--regex', rx]
    env = {}
    cwd = wd
    stdin_data = None
    if variant % 6 == 0:
        env = {}
    elif variant % 6 == 1:
        env = {('VAR_%d' % i): 'x' * (i % 50) for i in range(1500)}
    elif variant % 6 == 2:
        env = {'HOME': '/nonexistent', 'LANG': 'tr_TR.UTF-8', 'LC_ALL': 'C', 'TZ': 'Asia/Tokyo', 'RUST_BACKTRACE': '1'}
    elif variant % 6 == 3:
        env = dict(os.environ)
        cwd = d
    elif variant % 6 == 4:
        env = {'PATH': '/usr/bin:/bin', 'HOME': wd, 'LANG': 'de_DE.UTF-8', 'COLUMNS': '7', 'NO_COLOR': '1'}
    else:
        env = {'RUST_MIN_STACK': '16777216', 'MALLOC_ARENA_MAX': '1', 'MALLOC_PERTURB_': '165'}
    if variant % 2 == 1:
        args.append('-')
        stdin_data = text.encode()
    else:
        args.append(ipath)
    if variant % 3 == 2:
        args = ['setarch', 'x86_64', '-R'] + args
    p = subprocess.run(args, input=stdin_data, stdin=None if stdin_data is not None else subprocess.DEVNULL,
                       stdout=subprocess.PIPE, stderr=subprocess.PIPE, env=env, cwd=cwd, timeout=120)
    rd = lambda pth: open(pth, 'rb').read() if os.path.exists(pth) else None
    return p.returncode, p.stdout, rd(dfa), rd(rx)


def make_jobs(tier, seed):
    q = tier == 'quick'
    jobs = [('ex', seed, 6 if q else 24)]
    jobs += [('j', seed * 1000003 + i, 3, 6 if q else 16) for i in range(20 if q else 90)]
    return jobs


def check(acc, wd, P, text, shell, K, origin):
    outs = []
    for v in range(K):
        try:
            res = run_once(wd, text, shell, v, str(v))
        except subprocess.TimeoutExpired:
            acc.inconclusive.append('timeout')
            return
        acc.evals += 1
        acc.count('fresh_process_runs')
        if v % 3 == 2:
            acc.count('runs_with_aslr_off')
        outs.append(res)
    if outs[0][0] != 0:
        acc.count('not_accepted')
        return
    for v, res in enumerate(outs[1:], 1):
        for idx, what in ((0, 'exit status'), (1, 'script'), (2, '--dfa file'), (3, '--regex file')):
            if res[idx] != outs[0][idx]:
                from .c15 import first_diff
                acc.violation({'sig': 'runs-differ:' + what, 'grammar': text, 'shell': shell,
                               'what': 'fresh process #%d differs from #0 in the %s' % (v, what),
                               'observed': first_diff(outs[0][idx] or b'', res[idx] or b'') if idx else (outs[0][0], res[0]),
                               'origin': origin})
                return
    ans = P.ask('r', shell, 'repeat=4', text)
    acc.evals += 1
    acc.count('in_process_repeats', 4)
    if ans.get('repeat_same') is False:
        acc.violation({'sig': 'in-process-repeats-differ', 'grammar': text, 'shell': shell, 'origin': origin})
        return
    ntr = outs[0][2].count(b'->') if outs[0][2] else 0
    if ntr >= 8:
        acc.seen((text, shell))
    acc.count('dfa_edges_total', ntr)
    acc.sample({'grammar': text[:300], 'shell': shell, 'script_bytes': len(outs[0][1]), 'dfa_edges': ntr, 'runs': K})


def run_job(job, acc):
    wd = bashrun.make_workdir('c10')
    P = probe.Probe()
    try:
        try:
            with open('/proc/sys/kernel/randomize_va_space') as f:
                acc.counters['randomize_va_space'] = f.read().strip()
        except OSError:
            pass
        if job[0] == 'ex':
            exdir = os.path.join(paths.REPO, 'examples')
            for name in sorted(os.listdir(exdir)):
                with open(os.path.join(exdir, name)) as f:
                    src = f.read()
                for sh in common.SHELLS:
                    check(acc, wd, P, src, sh, job[2], 'example ' + name)
            return
        _, s, n, K = job
        r = random.Random(s)
        for i in range(n):
            text, _, _ = gast.print_grammar(big_grammar(r))
            for sh in common.SHELLS:
                check(acc, wd, P, text, sh, K, 'seed=%d #%d' % (s, i))
    finally:
        P.close()
        shutil.rmtree(wd, ignore_errors=True)


def replay(w, acc):
    wd = bashrun.make_workdir('c10r')
    P = probe.Probe()
    try:
        check(acc, wd, P, w['grammar'], w['shell'], 12, 'replay')
    finally:
        P.close()
        shutil.rmtree(wd, ignore_errors=True)
