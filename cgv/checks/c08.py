"""C08 - grammar mistakes are rejected with the right diagnostic; clean grammars pass."""
import random

from .. import gast, gen, probe, compile as comp
from ..gast import lit, nt, cmd, seq, alt, fb, opt, many, call, defn
from . import common

PROPERTY = 'C08'
LEVEL = 'exploration'
WORKERS = 4
RULE = ('a clean-by-construction base grammar (generator profile incl. within-word placeholders in tail position '
        'of an alternative, shell-specific command definitions, built-ins) gets at most one planted mistake of '
        'the nine classes of the statement, at a random place: directly in a call variant, under [] / ... / | / ||, '
        'inside a word, behind 0-4 definitions, in definitions that are reachable, unreachable or hanging below '
        'an unused root, for the target shell or another one. The real binary must exit 1 with a first diagnostic '
        'of the planted kind (and the library pipeline must return the matching Error variant); without a plant '
        'it must exit 0 for all four shells. non-trivial = every planted grammar and every clean grammar with '
        '>= 1 definition; distinct by hash of (text, shell)')
ASSUMPTIONS = ['classes 7-9 (spaces in a word, non-tail placeholder, conflicting descriptions) are planted only where '
               'the call variants reach them; "two descriptions" means two different non-empty descriptions']
MIN_EVALS = {'quick': 1500, 'thorough': 15000}

KINDS = {
    'cycle': ('NonterminalDefinitionsCycle', 'Nonterminal definitions cycle'),
    'duplicate': ('DuplicateNonterminalDefinition', 'Duplicate nonterminal definition'),
    'varying': ('VaryingCommandNames', 'Varying command names'),
    'nocalls': ('MissingCallVariants', 'at least one call variant'),
    'slash': ('InvalidCommandName', 'Invalid command name'),
    'unknownshell': ('UnknownShell', 'Unknown shell'),
    'noncmdspec': ('NonCommandSpecialization', 'Can only specialize external commands'),
    'spaces': ('SubwordSpaces', 'Adjacent literals in expression used in a subword context'),
    # the same mistake with one of the two literals inside a group, an alternative, an option or a repetition
    'spaces-group': ('SubwordSpaces', 'Adjacent literals in expression used in a subword context'),
    'nontail': ('UnboundedMatchable', 'Ambiguous grammar'),
    'conflict': ('ConflictingDescriptions', 'Conflicting descriptions'),
}


def base_grammar(r):
    g = gen.Gen(r, depth=r.choice([1, 2, 3, 4]), ndefs=(0, r.choice([1, 3, 5])), specs=r.random() < 0.5,
                builtins=r.random() < 0.3, max_width=r.choice([2, 3]), p_word=r.choice([0.1, 0.3]))
    stmts = g.grammar()
    # placeholders in tail position of an alternative inside a word
    if r.random() < 0.5:
        shapes = [
            ('word', (lit('t='), alt(lit('v1'), nt('UU')))),
            ('word', (lit('t='), alt(('word', (lit('v1'), cmd('echo tt'))), nt('UU')))),
            ('word', (lit('t='), opt(nt('UU')))),
            ('word', (lit('t='), alt(nt('UU'), ('word', (lit('v1'), alt(lit('p'), lit('q'))))))),
            ('word', (lit('t='), lit('v1', None) if False else alt(lit('v1'), lit('v2')), opt(('word', (lit(':'), nt('UU')))))),
            ('word', (lit('t='), nt('TD'))),
        ]
        e = r.choice(shapes)
        stmts = list(stmts)
        stmts.append(call('cmd', seq(lit('tailcase'), e)))
        if e == shapes[-1]:
            stmts.append(defn('TD', None, lit('never')))
    if r.random() < 0.25:
        # words nested in words through a chain of 2-5 definitions, the last level a plain alternative or a
        # placeholder in tail position
        k = r.randint(2, 5)
        stmts = list(stmts)
        names = ['NW%d' % i for i in range(k)]
        for i, nm in enumerate(names):
            if i == k - 1:
                body = r.choice([alt(lit('d'), lit('e')), nt('UU'), lit('only')])
            else:
                body = ('word', (lit('%s%d=' % (r.choice('abc'), i)), nt(names[i + 1])))
                if r.random() < 0.3:
                    body = alt(lit('plain%d' % i), body)
            stmts.insert(r.randint(0, len(stmts)), defn(nm, None, body))
        stmts.append(call('cmd', seq(lit('nested'), ('word', (lit('--n='), nt(names[0]))), opt(lit('after')))))
    return stmts


def context(r, p):
    k = r.random()
    if k < 0.3:
        return p
    if k < 0.45:
        return opt(p)
    if k < 0.55:
        return many(p)
    if k < 0.7:
        return alt(lit('zz1'), p)
    if k < 0.85:
        return fb(lit('zz2'), p)
    return seq(lit('zz3'), p)


def attach(r, stmts, p):
    """Make the call variants reach expression p, behind 0-4 definitions."""
    stmts = list(stmts)
    depth = r.choice([0, 0, 1, 2, 3, 4])
    e = context(r, p)
    for i in range(depth):
        name = 'IND%d' % i
        stmts.insert(r.randint(0, len(stmts)), defn(name, None, e))
        e = context(r, nt(name)) if r.random() < 0.5 else nt(name)
    ci = [i for i, s in enumerate(stmts) if s[0] == 'call']
    how = r.random()
    if how < 0.4 or not ci:
        stmts.insert(r.randint(0, len(stmts)), call('cmd', e))
    else:
        i = r.choice(ci)
        base = stmts[i][2]
        stmts[i] = call('cmd', seq(base, e) if how < 0.7 else alt(base, e))
    return stmts


def plant(r, stmts, shell, kind=None):
    """-> (kind, stmts', expected_for_this_shell: bool)"""
    kind = kind or r.choice(list(KINDS))
    stmts = list(stmts)
    if kind == 'cycle':
        n = r.randint(1, 4)
        names = ['Z%d' % i for i in range(n)]
        used = {st[1] for st in stmts if st[0] == 'def'}
        pool = [x for x in common.NAME_POOL if x not in used and x not in ('PATH', 'DIRECTORY')]
        hang = []
        if r.random() < 0.5 and len(pool) >= n + 3:
            # names of any spelling (their order in the compiler's tables varies), and a chain of ordinary
            # definitions hanging below one member of the cycle
            picked = r.sample(pool, n + r.randint(0, 3))
            names, hang = picked[:n], picked[n:]
        for i, nm in enumerate(names):
            nxt = nt(names[(i + 1) % n])
            body = r.choice([nxt, seq(lit('c%d' % i), nxt), alt(nxt, lit('c%d' % i)), opt(nxt),
                             ('word', (lit('w%d=' % i), nxt)), many(seq(lit('m'), nxt))])
            if hang and i == n - 1:
                body = seq(body, nt(hang[0]))
            stmts.insert(r.randint(0, len(stmts)), defn(nm, None, body))
        for j, h in enumerate(hang):
            hb = nt(hang[j + 1]) if j + 1 < len(hang) else lit('leaf%d' % j)
            stmts.insert(r.randint(0, len(stmts)), defn(h, None, hb if r.random() < 0.6 else seq(lit('h%d' % j), hb)))
        where = r.random()
        if where < 0.4 or (hang and where < 0.7):
            stmts = attach(r, stmts, nt(names[r.randrange(n)]))
        elif where < 0.6:
            stmts.insert(r.randint(0, len(stmts)), defn('ROOT', None, seq(lit('r'), nt(names[0]))))
        elif where < 0.8:
            # the cycle also depends on an ordinary definition: no definition is free of dependants
            stmts.insert(r.randint(0, len(stmts)), defn('LEAF', None, lit('leaf')))
            i = [k for k, s in enumerate(stmts) if s[0] == 'def' and s[1] == names[0]][0]
            stmts[i] = defn(names[0], None, seq(stmts[i][3], nt('LEAF')))
            if r.random() < 0.5:
                stmts = attach(r, stmts, nt('LEAF'))
        return kind, stmts, True
    if kind == 'duplicate':
        if r.random() < 0.5:
            stmts.insert(r.randint(0, len(stmts)), defn('DUP', None, lit('d1')))
            stmts.insert(r.randint(0, len(stmts)), defn('DUP', None, r.choice([lit('d1'), lit('d2'), cmd('echo d')])))
            if r.random() < 0.5:
                stmts = attach(r, stmts, nt('DUP'))
            return kind, stmts, True
        sh = r.choice(common.SHELLS)
        stmts.insert(r.randint(0, len(stmts)), defn('DUP', sh, cmd('echo d1')))
        stmts.insert(r.randint(0, len(stmts)), defn('DUP', sh, cmd('echo d2')))
        if r.random() < 0.5:
            stmts = attach(r, stmts, nt('DUP'))
        return kind, stmts, sh == shell
    if kind == 'varying':
        stmts.insert(r.randint(0, len(stmts)), call(r.choice(['other', 'cmd2', 'Cmd']), lit('x')))
        return kind, stmts, True
    if kind == 'nocalls':
        stmts = [s for s in stmts if s[0] != 'call']
        return kind, stmts, True
    if kind == 'slash':
        name = r.choice(['a/b', '/cmd', 'cmd/', './cmd'])
        stmts = [call(name, s[2]) if s[0] == 'call' else s for s in stmts]
        return kind, stmts, True
    if kind == 'unknownshell':
        stmts.insert(r.randint(0, len(stmts)), defn('KSH', r.choice(['ksh', 'sh', 'Bash', 'powershell', 'b']), cmd('echo k')))
        if r.random() < 0.5:
            stmts = attach(r, stmts, nt('KSH'))
        return kind, stmts, True
    if kind == 'noncmdspec':
        sh = r.choice(common.SHELLS)
        body = r.choice([lit('foo'), alt(lit('foo'), lit('bar')), seq(cmd('echo a'), lit('x')), opt(cmd('echo a')),
                         nt('OTHERNT')])
        stmts.insert(r.randint(0, len(stmts)), defn('NCS', sh, body))
        if r.random() < 0.5:
            stmts = attach(r, stmts, nt('NCS'))
        return kind, stmts, True
    if kind == 'spaces':
        bad = r.choice([seq(lit('pa'), lit('pb')), alt(lit('pc'), seq(lit('pa'), lit('pb'))),
                        seq(lit('pa'), lit('pb'), nt('PU')), opt(seq(lit('pa'), lit('pb'))),
                        # the left neighbour is itself compound: the literal that touches `pb` is its last item
                        ('seq', (('seq', (lit('px'), cmd('echo s'), lit('pa'))), lit('pb'))),
                        ('seq', (('seq', (cmd('echo s'), lit('pa'))), lit('pb'))),
                        ('seq', (('word', (lit('px'), cmd('echo s'), lit('pa'))), lit('pb'))),
                        ('seq', (lit('pa'), ('seq', (lit('pb'), cmd('echo s'), lit('py')))))])
        depth = r.choice([0, 1, 2, 3])
        e = bad
        for i in range(depth):
            nm = 'SP%d' % i
            stmts.insert(r.randint(0, len(stmts)), defn(nm, None, e))
            e = nt(nm)
        w = ('word', (lit('sp='), e))
        if r.random() < 0.3:
            w = ('word', (lit('sp='), alt(lit('ok'), e)))
        if e[0] == 'nt' and r.random() < 0.5:
            # the same definition is also used where spaces are fine (outside a word), and that use comes first
            use = seq(lit('plainuse'), e)
            if r.random() < 0.5:
                stmts.insert(0, call('cmd', alt(use, seq(lit('inword'), w))))
                return kind, stmts, True
            stmts.insert(0, call('cmd', use))
        stmts = attach(r, stmts, w)
        return kind, stmts, True
    if kind == 'spaces-group':
        bad = r.choice([seq(alt(lit('pa'), lit('pc')), lit('pb')), seq(lit('pa'), opt(lit('pb'))),
                        seq(opt(lit('pa')), lit('pb')), seq(many(lit('pa')), lit('pb')),
                        seq(fb(lit('pa'), lit('pc')), lit('pb')), seq(lit('pa'), alt(lit('pb'), lit('pd'))),
                        seq(lit('pa'), many(alt(lit('pb'), lit('pd'))))])
        e = bad
        if r.random() < 0.6:
            stmts.insert(r.randint(0, len(stmts)), defn('SPG', None, e))
            e = nt('SPG')
        stmts = attach(r, stmts, ('word', (lit('sp='), e)))
        return kind, stmts, True
    if kind == 'nontail':
        u = nt('PU')
        shape = r.choice([
            ('word', (lit('nt='), u, lit('x'))),
            ('word', (lit('nt='), u, opt(lit('x')))),
            ('word', (lit('nt='), alt(u, lit('a')), lit('b'))),
            ('word', (lit('nt='), many(u))),
            ('word', (lit('nt='), u, nt('PV'))),
            ('word', (lit('nt='), u, cmd('echo n'))),
            ('word', (lit('nt='), nt('NTD'), lit('b'))),
            ('word', (lit('nt='), nt('NTE'))),
            ('word', (u, lit('=x'))),
        ])
        if shape[1][1] == nt('NTD'):
            stmts.insert(r.randint(0, len(stmts)), defn('NTD', None, alt(lit('a'), u)))
        if shape[1][1] == nt('NTE'):
            stmts.insert(r.randint(0, len(stmts)), defn('NTE', None, ('word', (u, lit('b')))))
        stmts = attach(r, stmts, shape)
        return kind, stmts, True
    if kind == 'conflict':
        a, b = lit('cx', 'one'), lit('cx', 'two')
        shape = r.choice([
            alt(a, b),
            alt(seq(a, lit('y1')), lit('mid'), seq(b, lit('y2'))),
            alt(lit('m0'), seq(a, lit('y1')), lit('m1'), lit('m2'), seq(b, lit('y2')), lit('m3')),
            alt(a, lit('mid', 'one'), b),
            alt(seq(a, lit('y1')), seq(b, lit('y2'))),
            seq(opt(a), b),
            ('word', (lit('cf='), alt(a, b))),
            fb(a, b),
            alt(a, nt('CFD')),
        ])
        if shape[0] == 'alt' and shape[1][1] == nt('CFD'):
            stmts.insert(r.randint(0, len(stmts)), defn('CFD', None, seq(b, lit('t'))))
        stmts = attach(r, stmts, shape)
        return kind, stmts, True
    raise ValueError(kind)


# Literals juxtaposed *inside a group* of a word: nothing is space-separated, so the statement's converse clause
# applies (must be accepted).  (text of the word, literals meet inside a group?)
NESTED_JUXTAPOSITION = [
    ('-((c)(d))', True), ('k=[(c)(d)]', True), ('--o=((u)(v)|w)', True), ('p(q(r)(s))...', True), ('-(c(d))', True),
    ('y(((c|a)d)(d(b|c)))', True), ('z=(v"first"(w))', True),
    ('x((a|c)d)(d(b|c))', False), ('t:<NJ>', False), ('-((a|c)(b|d))', False), ('k=[(a|b)(c)...]', False),
    ('((c)(d))', False), ('[(c)(d)]', False), ('(c)(d)', False), ('-((c)<UU>)', False), ('x(c "dd")(d)', False),
]


def nested_juxtaposition_case(r):
    w, meets = r.choice(NESTED_JUXTAPOSITION)
    extra = 'cmd nestcase %s%s;\n' % (w, r.choice(['', ' end', ' [end]']))
    if '<NJ>' in w:
        extra += '<NJ> = (c)(d);\n'
    return extra, meets


def make_jobs(tier, seed):
    k = 40 if tier == 'quick' else 320
    return [('j', seed * 1000003 + i, 40) for i in range(k)]


def first_diag(stderr):
    """First error line (warnings of an otherwise fine grammar may precede an error that is
    detected late, e.g. conflicting descriptions)."""
    lines = [l for l in stderr.decode('utf-8', 'replace').split('\n') if l.strip()]
    for l in lines:
        if 'error' in l:
            return l
    for l in lines:
        if 'warning:' not in l and not l.lstrip().startswith(('|', '=')) and not l.lstrip()[:1].isdigit():
            return l
    return lines[0] if lines else ''


def run_job(job, acc):
    _, s, n = job
    r = random.Random(s)
    P = probe.Probe()
    try:
        for i in range(n):
            base = base_grammar(r)
            if r.random() < 0.3:
                # clean: accepted for every shell
                text, _, _ = gast.print_grammar(base, layout=r if r.random() < 0.3 else None)
                plain_text, meets = text, False
                if r.random() < 0.3:
                    extra, meets = nested_juxtaposition_case(r)
                    text = text + extra
                    acc.count('clean_with_literals_juxtaposed_inside_a_group' if meets else
                              'clean_with_nested_juxtaposition')
                for shell in common.SHELLS:
                    rc, out, err = comp.compile_text(text, shell)
                    acc.evals += 1
                    acc.count('clean_runs')
                    if rc != 0:
                        sig = 'clean-grammar-rejected'
                        if meets and rc == 1 and KINDS['spaces'][1] in first_diag(err) and \
                                comp.compile_text(plain_text, shell)[0] == 0:
                            # the grammar is fine without that one statement and the complaint is about adjacent
                            # literals: the recorded finding, nothing else
                            sig = 'clean-grammar-rejected:literals-juxtaposed-inside-a-group-of-a-word'
                        acc.violation({'sig': sig, 'grammar': text, 'shell': shell,
                                       'observed': err.decode('utf-8', 'replace')[:600], 'rc': rc,
                                       'origin': 'seed=%d #%d' % (s, i)})
                    if any(st[0] == 'def' for st in base):
                        acc.seen((text, shell))
                acc.sample({'clean': text})
                continue
            shell = r.choice(common.SHELLS)
            kind, stmts, expected = plant(r, base, shell)
            text, _, _ = gast.print_grammar(stmts, layout=r if r.random() < 0.3 else None)
            rc, out, err = comp.compile_text(text, shell)
            acc.evals += 1
            acc.count('planted_' + kind)
            acc.seen((text, shell))
            variant, phrase = KINDS[kind]
            if not expected:
                acc.count('planted_for_another_shell')
                if rc != 0:
                    acc.violation({'sig': 'other-shell-mistake-rejected:' + kind, 'grammar': text, 'shell': shell,
                                   'observed': err.decode('utf-8', 'replace')[:600], 'rc': rc})
                continue
            fd = first_diag(err)
            ans = P.ask('p', shell, 'valid', text)
            got_variant = (ans.get('error') or {}).get('variant')
            if rc != 1 or phrase not in fd or got_variant != variant:
                acc.violation({'sig': 'planted-%s:%s' % (kind, 'accepted' if rc == 0 else 'wrong-diagnostic'),
                               'grammar': text, 'shell': shell, 'expected': 'exit 1, %s / %s' % (phrase, variant),
                               'observed': {'rc': rc, 'first_line': fd[:200], 'library': got_variant,
                                            'stage': ans.get('stage')},
                               'origin': 'seed=%d #%d' % (s, i)})
            acc.sample({'planted': kind, 'shell': shell, 'grammar': text, 'first_diagnostic': fd[:120]})
    finally:
        P.close()


def replay(w, acc):
    rc, out, err = comp.compile_text(w['grammar'], w['shell'])
    print('rc', rc)
    print(err.decode('utf-8', 'replace')[:1500])
    acc.evals += 1
    if 'planted' in w['sig'] and (rc != 1):
        acc.violation({'sig': w['sig'], 'grammar': w['grammar'], 'observed': rc})
    if 'rejected' in w['sig'] and rc != 0:
        acc.violation({'sig': w['sig'], 'grammar': w['grammar'], 'observed': rc})
