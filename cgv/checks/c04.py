"""C04 - every emitted script embeds exactly the compiled automaton."""
import random
import re

from .. import gast, gen, probe, readers, bashrun, compile as comp
from ..gast import lit, nt, cmd, seq, alt, fb, opt, many, call, defn
from . import common, c02

PROPERTY = 'C04'
LEVEL = 'translation_validation'
WORKERS = 6
RULE = ('for every accepted (grammar, shell) the script written by the real binary must equal, byte for byte, the '
        'script cgprobe obtains from the same library calls in the process that also dumps the minimised automaton; '
        'the tables of that script are then read back - bash through a RETURN-trap dump of the locals of _<cmd>, every '
        '_<cmd>_subword_N and _<cmd>_subword_shape_K as bash itself decoded them, fish / zsh / pwsh through independent '
        'readers of their table syntax - and compared entry by entry with the automaton: literal list and '
        'descriptions, next state per (state, literal / command / compadd / any-word / within-word), candidates per '
        'state and level, start state, command bodies, every within-word function against its own nested automaton '
        '(through the shared shape function where one is used), registration line. Grammars are biased to several '
        'same-shaped and differently-shaped within-word expressions, descriptions, commands and 1-3 levels. '
        'non-trivial = automaton with >= 1 nested automaton or >= 6 transitions; distinct by (text, shell)')
ASSUMPTIONS = ['fish, zsh and pwsh are not installed: their tables are read by cgv/readers.py (documented quoting and '
               'indexing rules), control code of those scripts is not executed',
               'bash 5.2 decodes the bash tables itself (RETURN trap, local -p)']
MIN_EVALS = {'quick': 800, 'thorough': 8000}


def biased_grammar(r):
    """Several within-word expressions: same shape with different literals, one transition / level / command apart."""
    if r.random() < 0.35:
        return c02.random_grammar(r)
    if r.random() < 0.3:
        return twin_words(r)
    if r.random() < 0.15:
        return special_texts(r)
    if r.random() < 0.15:
        # one literal text with two descriptions, expected at different points (legal: no conflict at one point)
        t = r.choice(['web', 'all', 'x'])
        others = r.sample(['status', 'up', 'down', 'go'], 2)
        e = alt(seq(lit('start'), lit(t, 'start the %s tier' % t)), seq(lit('stop'), lit(t, 'stop the %s tier' % t)),
                lit(others[0]), lit(others[1]))
        if r.random() < 0.5:
            e = alt(e, seq(lit('in'), ('word', (lit('k='), alt(lit(t, 'first'), lit('z'))))),
                    seq(lit('out'), ('word', (lit('k='), alt(lit(t, 'second'), lit('z'))))))
        return [call('cmd', e)]
    pres = ['--a=', '--b=', '-c', 'd:', '--e=']
    r.shuffle(pres)
    nw = r.randint(2, 5)
    words = []
    base_vals = r.sample(['p', 'q', 'rr', 'sss', 'tt'], r.randint(2, 3))
    for i in range(nw):
        vals = list(base_vals)
        k = r.random()
        if k < 0.4:
            vals = [v + str(i) for v in vals]                 # same shape, different text
        elif k < 0.55:
            vals = vals + ['extra']                             # one more transition
        v = alt(*[lit(x, 'd%d' % i if r.random() < 0.3 else None) for x in vals])
        if k > 0.85:
            v = fb(alt(*[lit(x) for x in vals[:-1]]), lit(vals[-1]))   # another level
        elif k > 0.75:
            v = alt(v, cmd('echo w%d' % i))                  # a command more
        elif k > 0.65:
            v = ('word', (v, opt(('word', (lit(','), v)))))
        w = ('word', (lit(pres[i]), v)) if v[0] != 'word' else ('word', (lit(pres[i]),) + v[1])
        words.append(w)
    tail = [lit('sub', 'does sub'), cmd('echo top'), nt('UNDEF'), lit('x')]
    r.shuffle(tail)
    e = seq(alt(*words) if r.random() < 0.7 else fb(*words), *tail[:r.randint(1, 3)])
    if r.random() < 0.3:
        e = alt(e, fb(lit('l0'), lit('l1'), lit('l2')))
    return [call('cmd', e)]


SPECIAL_TEXTS = ['a$b', 'q"r', 'b`t', 'c\\d', '$x', "it's", '${HOME}', '$(id)', 'e\\', 'x*y', '[z]', 'h#i', 'tab\there'
                 if False else 't!u', '%s', 'a&b']


def special_texts(r):
    """Literal and description texts with characters that are special inside each shell's double quotes, at top
    level, in one word and in two words of the same shape: the tables, read with the shell's own rules, must hold
    exactly these texts."""
    top = r.sample(SPECIAL_TEXTS, r.randint(2, 4))
    rest = [t for t in SPECIAL_TEXTS if t not in top]
    v1 = r.sample(rest, 2)
    rest = [t for t in rest if t not in v1]
    v2 = r.sample(rest, 2)
    descs = ['costs $5', 'say "hi"', 'back`tick`', 'back\\slash', None, None]
    branches = [lit(t, r.choice(descs)) for t in top]
    branches.append(('word', (lit('--k='), alt(lit(v1[0], r.choice(descs)), lit(v1[1])))))
    if r.random() < 0.6:
        branches.append(('word', (lit('--j='), alt(lit(v2[0], r.choice(descs)), lit(v2[1])))))
    return [call('cmd', seq(alt(*branches), lit('end')))]


def twin_words(r):
    """Two or three within-word expressions that are identical except for exactly one aspect: literal text
    only (must share a shape), literal level, command level, command identity, which command, presence of an
    any-text placeholder, one extra transition, a description."""
    c1, c2 = cmd('echo apple'), cmd('echo berry')
    a, b = lit('v'), lit('w')
    aspects = ['text', 'lit-level', 'cmd-level', 'cmd-identity', 'star', 'extra', 'descr', 'cmd-vs-lit',
               'builtin-level', 'spec-level', 'builtin-vs-lit-level']
    aspect = r.choice(aspects)
    extra_defs = []
    if aspect == 'text':
        v1, v2 = alt(a, b), alt(lit('p'), lit('q'))
    elif aspect == 'lit-level':
        v1, v2 = fb(a, b), fb(b, a)
    elif aspect == 'cmd-level':
        v1, v2 = fb(c1, c2), fb(c2, c1)
    elif aspect == 'cmd-identity':
        v1, v2 = alt(a, c1), alt(a, c2)
    elif aspect == 'star':
        v1, v2 = alt(a, b), alt(a, nt('ANY'))
    elif aspect == 'extra':
        v1, v2 = alt(a, b), alt(a, b, lit('x'))
    elif aspect == 'descr':
        v1, v2 = alt(a, b), alt(lit('v', 'described'), b)
    elif aspect == 'builtin-level':
        # built-in completions are compadd-style commands in zsh: their candidate tables are separate ones
        v1, v2 = fb(nt('PATH'), nt('DIRECTORY')), fb(nt('DIRECTORY'), nt('PATH'))
    elif aspect == 'spec-level':
        for sh in common.SHELLS:
            extra_defs.append(defn('SPA', sh, cmd('echo spa_%s' % sh)))
            extra_defs.append(defn('SPB', sh, cmd('echo spb_%s' % sh)))
        v1, v2 = fb(nt('SPA'), nt('SPB')), fb(nt('SPB'), nt('SPA'))
    elif aspect == 'builtin-vs-lit-level':
        v1, v2 = fb(a, nt('PATH')), fb(nt('PATH'), a)
    else:
        v1, v2 = fb(a, c1), fb(c1, a)
    words = [('word', (lit('--a='), v1)), ('word', (lit('--b='), v2))]
    if r.random() < 0.5:
        words.append(('word', (lit('--c='), r.choice([v1, v2]))))
    r.shuffle(words)
    e = seq(alt(*words), r.choice([lit('end'), c2, nt('U2')]))
    if r.random() < 0.3:
        e = alt(e, seq(lit('other'), c1))
    return [call('cmd', e)] + extra_defs


# ---------------------------------------------------------------------------
# comparison of one automaton with one table set

def literal_key(inp):
    return (inp['t'], inp['d'] or '')


def compare_tables(flat, T, cmd_ids, shell, sub_match=None, is_main=True):
    """flat: dumped automaton; T: neutral tables; cmd_ids: command text -> id.  -> list of problems."""
    probs = []
    # literal list
    auto_lits = {}
    for i in sorted({i for _, i, _ in flat['tr']}):
        inp = flat['inputs'][i]
        if inp['k'] == 'L':
            auto_lits[literal_key(inp)] = None
    table_lits = [(t, T['descr'].get(i, '') or '') for i, t in enumerate(T['literals'])]
    if shell == 'bash':
        if sorted(set(t for t, _ in auto_lits)) != sorted(set(T['literals'])) or \
                len(T['literals']) != len(auto_lits):
            probs.append('literal list %s, automaton literals %s' % (T['literals'], sorted(auto_lits)))
            return probs
        lit_id = {}
        # bash has no descriptions: (text, descr) pairs with the same text occupy consecutive slots
        pool = {}
        for i, t in enumerate(T['literals']):
            pool.setdefault(t, []).append(i)
        for (t, d) in sorted(auto_lits, key=lambda k: (k[0], k[1])):
            pass
        ids_for_text = pool
    else:
        if sorted(table_lits) != sorted(auto_lits):
            probs.append('literal/description list %s, automaton literals %s' % (sorted(table_lits), sorted(auto_lits)))
            return probs
        ids_for_text = None
    lens = [len(t) for t in T['literals']]
    if lens != sorted(lens, reverse=True):
        probs.append('literal list not in decreasing length: %s' % T['literals'])

    def lit_ids(inp):
        if shell == 'bash':
            return ids_for_text[inp['t']]
        return [i for i, k in enumerate(table_lits) if k == literal_key(inp)]

    # transitions
    n_l = n_c = n_a = n_s = n_star = 0
    for a, i, b in flat['tr']:
        inp = flat['inputs'][i]
        k = inp['k']
        if k == 'L':
            n_l += 1
            ids = lit_ids(inp)
            if not any(T['lit_tr'].get(a, {}).get(x) == b for x in ids):
                probs.append('literal %r: state %d -> %d not in the match table (%s)' % (inp['t'], a, b, T['lit_tr'].get(a)))
            lvl = inp['fb']
            listed = T['comp_lit'][lvl].get(a, []) if lvl < len(T['comp_lit']) else []
            if not any(x in listed for x in ids):
                probs.append('literal %r not offered at state %d level %d (%s)' % (inp['t'], a, lvl, listed))
        elif k in ('C', 'A'):
            cid = cmd_ids.get(inp['c'])
            if cid is None:
                probs.append('command %r has no function' % inp['c'])
                continue
            if k == 'C' or shell != 'zsh':
                n_c += 1
                tr, comp_ = T['cmd_tr'], T['comp_cmd']
            else:
                n_a += 1
                tr, comp_ = T['compadd_tr'], T['comp_compadd']
            if tr.get(a, {}).get(cid) != b:
                probs.append('command %d: state %d -> %d not in the match table (%s)' % (cid, a, b, tr.get(a)))
            lvl = inp['fb']
            listed = comp_[lvl].get(a, []) if lvl < len(comp_) else []
            if cid not in listed:
                probs.append('command %d not offered at state %d level %d (%s)' % (cid, a, lvl, listed))
        elif k == '*':
            n_star += 1
            if T['star_tr'].get(a) != b:
                probs.append('any-word: state %d -> %d not in the table (%s)' % (a, b, T['star_tr']))
        elif k == 'S':
            n_s += 1
            cands = [sid for sid, to in T['sub_tr'].get(a, {}).items() if to == b and sub_match(inp['sub'], sid)]
            if not cands:
                probs.append('within-word expression #%d: state %d -> %d has no matching table entry (%s)'
                             % (inp['sub'], a, b, T['sub_tr'].get(a)))
                continue
            lvl = inp['fb']
            listed = T['comp_sub'][lvl].get(a, []) if lvl < len(T['comp_sub']) else []
            if not any(c in listed for c in cands):
                probs.append('within-word expression #%d not offered at state %d level %d (%s)' % (inp['sub'], a, lvl, listed))
    # nothing extra in the tables
    cnt = lambda d: sum(len(v) for v in d.values())
    if cnt(T['lit_tr']) != len({(a, tuple(sorted(lit_ids(flat['inputs'][i]))), b) for a, i, b in flat['tr'] if flat['inputs'][i]['k'] == 'L'}) \
            and cnt(T['lit_tr']) > n_l:
        probs.append('match table has %d literal entries, automaton %d literal transitions' % (cnt(T['lit_tr']), n_l))
    if cnt(T['cmd_tr']) > n_c:
        probs.append('match table has %d command entries, automaton %d' % (cnt(T['cmd_tr']), n_c))
    if cnt(T['compadd_tr']) > n_a:
        probs.append('match table has %d compadd entries, automaton %d' % (cnt(T['compadd_tr']), n_a))
    if len(T['star_tr']) > n_star:
        probs.append('any-word table has %d entries, automaton %d' % (len(T['star_tr']), n_star))
    if cnt(T['sub_tr']) > n_s:
        probs.append('within-word table has %d entries, automaton %d' % (cnt(T['sub_tr']), n_s))
    for name, key in (('literal', 'comp_lit'), ('command', 'comp_cmd'), ('compadd', 'comp_compadd'), ('within-word', 'comp_sub')):
        total = sum(len(v) for lv in T[key] for v in lv.values())
        want = {'comp_lit': n_l, 'comp_cmd': n_c, 'comp_compadd': n_a, 'comp_sub': n_s}[key]
        if total > want:
            probs.append('%s completion tables list %d entries, automaton has %d such transitions' % (name, total, want))
    if is_main and T['start'] is not None and T['start'] != flat['start']:
        probs.append('start state %s, automaton starts at %d' % (T['start'], flat['start']))
    if not is_main and flat['start'] != 0:
        probs.append('nested automaton does not start at state 0 (%d) but the script assumes it' % flat['start'])
    return probs


def compare_script(dump, R, shell, cmdname='cmd'):
    """dump: dfa_min of cgprobe; R: reader result.  -> list of problems."""
    probs = []
    texts = []
    for flat in [dump['main']] + [dump['subs'][k] for k in sorted(dump['subs'], key=int)]:
        for i in sorted({i for _, i, _ in flat['tr']}):
            inp = flat['inputs'][i]
            if inp['k'] in ('C', 'A') and inp['c'] not in texts:
                texts.append(inp['c'])
    cmd_ids = {}
    for t in texts:
        want = t.strip()
        for cid, body in R['commands'].items():
            ok = body == want or (want == '' and body in (':', '# empty command', ''))
            if ok and cid not in cmd_ids.values():
                cmd_ids[t] = cid
                break
        else:
            probs.append('no command function with body %r (bodies: %s)' % (want[:60], R['commands']))
    if len(R['commands']) != len(texts):
        probs.append('%d command functions for %d distinct commands' % (len(R['commands']), len(texts)))
    cache = {}

    def sub_match(sub, sid):
        key = (sub, sid)
        if key not in cache:
            T = R['subwords'].get(sid)
            if T is None:
                cache[key] = False
            else:
                cache[key] = not compare_tables(dump['subs'][str(sub)], T, cmd_ids, shell, None, is_main=False)
        return cache[key]

    probs += compare_tables(dump['main'], R['main'], cmd_ids, shell, sub_match, True)
    # every within-word function belongs to some nested automaton
    for sid in R['subwords']:
        if not any(sub_match(int(sub), sid) for sub in dump['subs']):
            detail = None
            for sub in dump['subs']:
                detail = compare_tables(dump['subs'][sub], R['subwords'][sid], cmd_ids, shell, None, False)[:2]
                break
            probs.append('within-word function %d matches no nested automaton (e.g. %s)' % (sid, detail))
    reg = R.get('registration')
    want = {'bash': ('_' + cmdname, cmdname), 'zsh': ('_' + cmdname, cmdname), 'fish': ('_' + cmdname, cmdname),
            'pwsh': ('scriptblock', cmdname)}[shell]
    if reg != want:
        probs.append('registration %s, expected %s' % (reg, want))
    return probs


def bash_reader(script):
    ids = sorted({int(x) for x in re.findall(r'^_cmd_subword_(\d+) \(\) \{', script, re.M)})
    direct = ["_cmd_subword_%d matches ''" % k for k in ids]
    res = bashrun.run_session(script, 'cmd', [{'words': ['cmd', ''], 'cword': 1, 'wb': ''}], dump=True,
                              direct_calls=direct)
    if res['timed_out']:
        raise readers.ReaderError('bash session timed out')
    if res['source_rc'] != 0:
        # bash itself refuses the script: its tables cannot describe anything
        raise readers.TableInconsistent('bash cannot load the script: %s' % res['stderr'][:300])
    R = readers.read_bash_dump(script, res['dumps'])
    # tables the shared matcher reads must be locals of every wrapper (or its shape function): in bash a
    # missing local silently resolves to the caller's table of the same name (dynamic scoping)
    m = re.search(r'^_cmd_subword \(\) \{\n(.*?)\n\}\n', script, re.S | re.M)
    needed = ['literals', 'literal_transitions', 'max_fallback_level']
    if m:
        body = m.group(1)
        for name in ('command_transitions', 'star_transitions'):
            if name + '[' in body:
                needed.append(name)
    per_level = ['literal_transitions_level_%d']
    if m and 'commands_level_' in m.group(1):
        per_level.append('commands_level_%d')
    R['missing_locals'] = {}
    for k, names in R.get('declared', {}).items():
        T = R['subwords'].get(k)
        want = list(needed)
        if T is not None and T.get('max_level') is not None:
            for lv in range(T['max_level'] + 1):
                want.extend(n % lv for n in per_level)
        R['missing_locals'][k] = [n for n in want if n not in names]
    R['missing_locals'] = {k: v for k, v in R['missing_locals'].items() if v}
    return R


READERS = {'fish': readers.read_fish, 'zsh': readers.read_zsh, 'pwsh': readers.read_pwsh}


def check_one(P, stmts, shell, acc, origin, run_bash=True):
    text, _, _ = gast.print_grammar(stmts)
    ans = P.ask('g', shell, 'dfa,script', text)
    if ans.get('stage') != 'done' or 'script' not in ans:
        acc.count('not_accepted')
        return
    acc.evals += 1
    acc.count('programs')
    acc.count('programs_' + shell)
    rc, out, err = comp.compile_text(text, shell)
    base = {'grammar': text, 'shell': shell, 'origin': origin, 'stmts': stmts}
    if rc != 0 or out.decode('utf-8', 'replace') != ans['script']:
        acc.count('disagreements_checked')
        acc.violation(dict(base, sig='binary-and-library-scripts-differ',
                           what='complgen binary output differs from the script of the same library calls', rc=rc))
        return
    script = ans['script']
    try:
        if shell == 'bash':
            if not run_bash:
                return
            R = bash_reader(script)
            acc.count('bash_trap_dumps')
        else:
            R = READERS[shell](script)
    except readers.NotInert as e:
        acc.count('constants_left_to_C07')
        return
    except readers.TableInconsistent as e:
        acc.count('disagreements_checked')
        acc.violation(dict(base, sig='tables-inconsistent',
                           what='the tables of the %s script contradict each other: %s' % (shell, e)))
        return
    except readers.ReaderError as e:
        acc.inconclusive.append('reader (%s): %s' % (shell, e))
        return
    probs = compare_script(ans['dfa_min'], R, shell)
    if shell == 'bash' and R.get('missing_locals'):
        probs.insert(0, 'within-word functions do not declare tables the shared matcher reads: %s' % R['missing_locals'])
    ntr = len(ans['dfa_min']['main']['tr'])
    if ans['dfa_min']['subs'] or ntr >= 6:
        acc.seen((text, shell))
    acc.count('nested_automata', len(ans['dfa_min']['subs']))
    acc.count('shared_shape_functions', len(re.findall(r'_cmd_subword_shape_\d+ (\(\) )?\{?$', script, re.M)))
    acc.count('table_entries_compared', ntr + sum(len(f['tr']) for f in ans['dfa_min']['subs'].values()))
    if probs:
        acc.count('disagreements_checked')
        sig = 'tables-differ'
        from . import c09
        two = c09.two_readings(ans['dfa_min'])
        if two:
            sig = 'tables-differ:automaton-has-two-readings'
        acc.violation(dict(base, sig=sig, what=probs[0], observed=probs[:6],
                           two_readings=[s for s, _ in two][:4]))
        return
    acc.sample({'grammar': text[:300], 'shell': shell, 'transitions': ntr, 'nested': len(ans['dfa_min']['subs'])})


def make_jobs(tier, seed):
    q = tier == 'quick'
    return [('j', seed * 1000003 + i, 20 if q else 60) for i in range(24 if q else 96)]


def run_job(job, acc):
    gen.NON_ASCII_BODIES = True     # command bodies must reach every script verbatim, whatever bytes they hold
    _, s, n = job
    r = random.Random(s)
    P = probe.Probe()
    try:
        for i in range(n):
            stmts = biased_grammar(r)
            for shell in common.SHELLS:
                check_one(P, stmts, shell, acc, 'seed=%d #%d' % (s, i), run_bash=(i % 4 == 0))
    finally:
        P.close()


def replay(w, acc):
    from .c02 import tuplify
    P = probe.Probe()
    try:
        check_one(P, [tuplify(s) for s in w['stmts']], w['shell'], acc, 'replay')
    finally:
        P.close()
