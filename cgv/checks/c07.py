"""C07 - text taken from the grammar reaches the shell verbatim and inert."""
import os
import random
import shutil

from .. import gast, readers, bashrun, refrun, compile as comp
from ..gast import lit, nt, cmd, seq, alt, call
from . import common

PROPERTY = 'C07'
LEVEL = 'exploration'
WORKERS = 4
RULE = ('literal and description strings drawn over the whole character set the syntax admits, with emphasis on '
        '" ` $ \\ ! * ? ~ # & [ ] { } ( ) < > | ; in all pairings (backslash before " $ `, trailing backslash, '
        '$(>file) and `>file` payloads, ${HOME}, ~, !!, globs matching files of the working directory) are placed at '
        'top level, inside words (prefix, alternative) and as descriptions. For each of the four shells the script of '
        'the real binary is read back with an independent decoder of that shell\'s double-quote rules: the set of '
        'literal constants and of description constants must equal the grammar\'s strings and no constant may '
        'contain anything the shell would expand. For bash additionally: bash -n passes; in a real bash with the '
        'script sourced, completing the empty prefix offers each literal character for character, each literal typed '
        'as a complete word is recognised and a set of near misses derived from it (glob readings, a backslash '
        'removed or added, case change, one character more or less) is not, prefixes containing word-break and glob '
        'characters are stripped exactly, and a canary directory keeps its content. '
        'non-trivial = grammar containing >= 1 string with a shell-special character; distinct by (text, shell / query)')
RULE += ' ' + 'Half of the cases hold two words of the same table shape (the bash emitter writes the literal tables of shape-sharing words at another place than those of a word with a shape of its own).'
ASSUMPTIONS = ['fish / zsh / pwsh constants are decoded by cgv/readers.py (documented double-quote rules); one description '
               'with typographic quotes (a PowerShell string terminator by its tokenizer\'s rule) is generated; what pwsh '
               'does with it is the recorded finding KF-L',
               'command names are plain (`cmd`): the statement is about literals and descriptions']
MIN_EVALS = {'quick': 1500, 'thorough': 15000}

SPECIAL = '"`$\\!*?~#&[]{}()<>|;\'^%=:,@+-./'
PLAIN = 'abfxyz019'
PAYLOADS = ['$(>pwn1)', '`>pwn2`', '${HOME}', '$HOME', '~', '!!', 'f*', '?1', '[f]1', 'a\\', '\\', '\\\\', 'a\\"b',
            'a\\$b', 'a\\`b', '"', '$', '`', '$$', '$1', '${x', '$((1+1))', 'a"b"c', "it's", '*', '?', '[', ']', '[]',
            '[!a]', '{a,b}', '<(x)', '>(y)', '&', '&&', ';x', '|y', '#h', 'a#b', '%s', '\\n', '\\t', '-n', '-e', '--',
            'x=y', 'a:b', 'a@b', 'a,b', '^x', "'", "''", '"$x"', '`', '``']
DESCRS = ['plain words', 'has "quotes" inside', 'cost is $5 or $HOME', 'back`tick` here', 'back\\slash', 'ends with \\',
          '$(>pwn3) payload', '`>pwn4` payload', 'tab\there', 'semi; colon: (paren) [brk] {brace} <angle>', "single ' quote",
          'star * qmark ? tilde ~', 'é ü 日本語', '!! history !$', '%s %d', '#hash', '${x:-y}', '"', '\\"', '$', '``', '\\\\',
          'smart \u201dquotes\u201c here', 'first line\nsecond line', 'cr\rhere']


def rand_string(r):
    k = r.random()
    if k < 0.45:
        return r.choice(PAYLOADS)
    n = r.randint(1, 5)
    out = []
    for _ in range(n):
        out.append(r.choice(SPECIAL) if r.random() < 0.6 else r.choice(PLAIN))
    s = ''.join(out)
    return s


def usable_literal(s):
    return s and not s.startswith('#') and all(33 <= ord(c) < 127 for c in s)


def prefix_free(strings):
    ss = sorted(set(strings))
    return not any(ss[i + 1].startswith(ss[i]) for i in range(len(ss) - 1))


def make_case(r):
    tops = []
    while len(tops) < r.randint(2, 6):
        s = rand_string(r)
        if usable_literal(s) and s not in tops and s != 'tail':
            tops.append(s)
    descs = {}
    for t in tops:
        if r.random() < 0.4:
            descs[t] = r.choice(DESCRS)
    # a word: PREFIX(A|B) with special strings, prefix-free among themselves
    wp = None
    for _ in range(20):
        p = rand_string(r)
        alts = [rand_string(r) for _ in range(r.randint(2, 3))]
        if not usable_literal(p) or not all(usable_literal(a) for a in alts):
            continue
        if len(set(alts)) != len(alts) or p in alts or not prefix_free(alts + [p]):
            continue
        if len({a[0] for a in alts}) != len(alts):
            continue
        if p in tops or any(t.startswith(p) or p.startswith(t) for t in tops):
            continue
        wp = (p, alts)
        break
    # a twin word of the same shape (same number of alternatives): the bash emitter shares one function per shape
    # and writes the literal tables of such words at another place than those of a word with a shape of its own
    wp2 = None
    if wp and r.random() < 0.6:
        for _ in range(30):
            p = rand_string(r)
            alts = [rand_string(r) for _ in range(len(wp[1]))]
            if not usable_literal(p) or not all(usable_literal(a) for a in alts):
                continue
            if len(set(alts)) != len(alts) or p in alts or not prefix_free(alts + [p]):
                continue
            if len({a[0] for a in alts}) != len(alts):
                continue
            if any(t.startswith(p) or p.startswith(t) for t in tops + [wp[0]]):
                continue
            if set(alts) & set(wp[1]) or p in wp[1] or wp[0] in alts:
                continue
            wp2 = (p, alts)
            break
    branches = [lit(t, descs.get(t)) for t in tops]
    wdescs = {}
    described = None
    for w in (wp, wp2):
        if not w:
            continue
        walts = []
        if described is None:
            described = [r.random() < 0.3 for _ in w[1]]
        for a, has in zip(w[1], described):
            d = r.choice(DESCRS) if has else None
            if d:
                wdescs[a] = d
            walts.append(lit(a, d))
        branches.append(('word', (lit(w[0]), alt(*walts))))
    if wp2:
        wp = (wp[0], wp[1], wp2)
    e = seq(alt(*branches) if len(branches) > 1 else branches[0], lit('tail'))
    return [call('cmd', e)], tops, descs, wp, wdescs


def words_of(wp):
    if not wp:
        return []
    return [(wp[0], wp[1])] + ([wp[2]] if len(wp) > 2 else [])


def near_misses(t, r):
    out = set()
    if '*' in t:
        out.add(t.replace('*', 'XY', 1))
        out.add(t.replace('*', '', 1))
    if '?' in t:
        out.add(t.replace('?', 'X', 1))
    if '[' in t and ']' in t[t.index('['):]:
        i = t.index('[')
        j = t.index(']', i)
        inner = t[i + 1:j].lstrip('!^')
        if inner:
            out.add(t[:i] + inner[0] + t[j + 1:])
    if '\\' in t:
        out.add(t.replace('\\', '', 1))
        out.add(t.replace('\\', '\\\\', 1))
    else:
        out.add('\\' + t)
    if t.swapcase() != t:
        out.add(t.swapcase())
    out.add(t + 'x')
    if len(t) > 1:
        out.add(t[:-1])
    out.discard(t)
    out.discard('')
    return sorted(out)


def static_checks(text, shell, script, tops, descs, wp, wdescs, acc, base):
    want_lits = set(tops) | {'tail'}
    want_desc = set(descs.values()) | set(wdescs.values())
    for w in words_of(wp):
        want_lits |= {w[0]} | set(w[1])
    try:
        if shell == 'bash':
            lists = readers.bash_text_constants(script)
            got_lits = {x for l in lists for x in l}
            got_desc = None
        else:
            R = {'fish': readers.read_fish, 'zsh': readers.read_zsh, 'pwsh': readers.read_pwsh}[shell](script)
            got_lits = set(R['main']['literals'])
            got_desc = set(R['main']['descr'].values())
            for T in R['subwords'].values():
                got_lits |= set(T['literals'])
                got_desc |= set(T['descr'].values())
    except readers.NotInert as e:
        acc.violation(dict(base, sig='constant-not-inert:' + shell, what=str(e), observed=e.raw[:120]))
        return False
    except readers.ReaderError as e:
        acc.violation(dict(base, sig='script-not-readable:' + shell, what=str(e)))
        return False
    if got_lits != want_lits:
        acc.violation(dict(base, sig='literal-constants-differ:' + shell,
                           expected=sorted(want_lits), observed=sorted(got_lits),
                           what='missing %s, unexpected %s' % (sorted(want_lits - got_lits), sorted(got_lits - want_lits))))
        return False
    if got_desc is not None and got_desc != want_desc:
        acc.violation(dict(base, sig='description-constants-differ:' + shell,
                           expected=sorted(want_desc), observed=sorted(got_desc)))
        return False
    return True


def make_jobs(tier, seed):
    q = tier == 'quick'
    return [('j', seed * 1000003 + i, 6 if q else 10) for i in range(28 if q else 300)]


def run_job(job, acc):
    _, s, n = job
    r = random.Random(s)
    scratch = bashrun.make_workdir('c07')
    try:
        for f in ('f1', 'f2', 'a1', 'x'):
            open(os.path.join(scratch, f), 'w').close()
        before = sorted(os.listdir(scratch))
        for i in range(n):
            stmts, tops, descs, wp, wdescs = make_case(r)
            text, _, _ = gast.print_grammar(stmts, enc_rng=r if i % 3 == 0 else None)   # now and then: alternative spellings (escapes, continuations in descriptions)
            special = any(c in SPECIAL[:24] for t in tops + list(descs.values()) for c in t)
            scripts = {}
            for shell in common.SHELLS:
                rc, out, err = comp.compile_text(text, shell)
                acc.evals += 1
                base = {'grammar': text, 'shell': shell, 'origin': 'seed=%d #%d' % (s, i), 'strings': tops,
                        'descriptions': descs, 'word': wp}
                if rc != 0:
                    acc.violation(dict(base, sig='grammar-rejected', observed=err.decode('utf-8', 'replace')[:300]))
                    continue
                if special:
                    acc.seen((text, shell))
                acc.count('scripts_read_' + shell)
                if static_checks(text, shell, out.decode('utf-8', 'replace'), tops, descs, wp, wdescs, acc, base):
                    scripts[shell] = out
            if 'bash' not in scripts or i % 2:
                continue
            script = scripts['bash'].decode('utf-8', 'replace')
            base = {'grammar': text, 'shell': 'bash', 'origin': 'seed=%d #%d' % (s, i), 'strings': tops, 'word': wp}
            ok, msg = bashrun.bash_syntax_ok(script)
            acc.evals += 1
            if not ok:
                acc.violation(dict(base, sig='bash-n-fails', observed=msg[:300]))
                continue
            # queries
            qs = []
            wbd = bashrun.wordbreaks()
            words = words_of(wp)
            wprefixes = [w[0] for w in words]
            first_items = set(tops) | set(wprefixes)
            qs.append((['cmd', ''], '', {t + ' ' for t in tops} | set(wprefixes), 'empty-prefix', True))
            for t in tops:
                qs.append((['cmd', t, ''], '', {'tail '}, 'literal-recognised', True))
                for nm in near_misses(t, r)[:4]:
                    if nm in first_items or any(nm.startswith(x) for x in wprefixes):
                        continue
                    qs.append((['cmd', nm, ''], '', set(), 'near-miss-rejected', True))
                k = r.randint(1, len(t))
                p = t[:k]
                exp = {x + ' ' for x in tops if x.startswith(p)} | {x for x in wprefixes if x.startswith(p)}
                for wb in ('', wbd):
                    stripped = refrun.strip_wordbreaks(exp, p, wb)
                    qs.append((['cmd', p], wb, stripped, 'prefix', True))
            for p0, alts in words:
                qs.append((['cmd', p0], '', {p0 + a for a in alts}, 'word-prefix', True))
                for a in alts:
                    qs.append((['cmd', p0 + a, ''], '', {'tail '}, 'word-recognised', True))
                    for nm in near_misses(a, r)[:3]:
                        if nm in alts or any(x.startswith(nm) for x in alts):
                            continue
                        qs.append((['cmd', p0 + nm, ''], '', set(), 'word-near-miss-rejected', True))
            queries = [{'words': w, 'cword': len(w) - 1, 'wb': wb} for (w, wb, exp, kind, exact) in qs]
            res = bashrun.run_session(script, 'cmd', queries, cwd=scratch)
            if res['timed_out']:
                acc.inconclusive.append('bash timeout')
                continue
            if res['source_rc'] != 0:
                acc.violation(dict(base, sig='script-does-not-load', observed=res['stderr'][:300]))
                continue
            for (w, wb, exp, kind, exact), ob in zip(qs, res['results']):
                if ob is None:
                    acc.inconclusive.append('no answer')
                    continue
                acc.evals += 1
                acc.count('bash_' + kind)
                if special:
                    acc.seen((text, tuple(w), wb))
                got = set(ob['reply'])
                if got != exp:
                    acc.violation(dict(base, sig='bash-' + kind, query={'words': w, 'wordbreaks': wb},
                                       expected=sorted(exp), observed=sorted(got), rc=ob['rc']))
                    break
            after = sorted(os.listdir(scratch))
            if after != before:
                acc.violation(dict(base, sig='grammar-text-was-executed', what='working directory changed',
                                   observed=[x for x in after if x not in before]))
                for x in after:
                    if x not in before:
                        try:
                            os.unlink(os.path.join(scratch, x))
                        except OSError:
                            pass
            acc.sample({'grammar': text, 'bash_queries': len(qs)})
    finally:
        shutil.rmtree(scratch, ignore_errors=True)


def replay(w, acc):
    rc, out, err = comp.compile_text(w['grammar'], w['shell'])
    acc.evals += 1
    print('rc', rc)
    if w['shell'] == 'bash' and 'query' in w:
        q = {'words': w['query']['words'], 'cword': len(w['query']['words']) - 1, 'wb': w['query']['wordbreaks']}
        res = bashrun.run_session(out.decode(), 'cmd', [q])
        print('expected', w.get('expected'), 'observed', res['results'][0], res['stderr'][-300:])
        if res['results'][0] is None or sorted(res['results'][0]['reply']) != w.get('expected'):
            acc.violation({'sig': w['sig'], 'observed': res['results'][0]})
    else:
        sc = out.decode('utf-8', 'replace')
        import re
        for l in sc.split('\n'):
            if 'literals' in l or 'descr' in l:
                print(l[:300])
