"""C06 - the compiler never crashes or hangs: script + exit 0, or diagnostic + exit 1."""
import os
import random
import shutil
import subprocess
import time

from .. import gast, gen, hostile, paths, probe, bashrun
from . import common, c02

PROPERTY = 'C06'
LEVEL = 'exploration'
NEEDS_CHK_BUILD = True
WORKERS = 4
RULE = ('the real complgen binary is run as a subprocess (input from a path or stdin; script to stdout, a new '
        'file or an existing file holding a sentinel; four shells; release build and a build with '
        'debug-assertions + overflow-checks) on: valid generated grammars, structure-aware mutations of '
        'their printed text (token delete / duplicate / swap / insert / replace / truncate / newline / '
        'unbalance / byte flip), cyclic, missing and duplicate definitions, multi-line constructs, token '
        'soups, arbitrary bytes; and a much larger stream of the same inputs goes through the library '
        'pipeline in-process (cgprobe) where any panic or abort is confirmed against the binary. Contract: '
        'status 0 with a complete script at the destination, or status 1 with a diagnostic on stderr, empty '
        'stdout and an untouched destination; nothing else. non-trivial = not accepted, or accepted with >= 1 '
        'definition or warning; distinct by content hash')
ASSUMPTIONS = ['a run is a hang only if it exceeds 20 s and again 200 s when retried alone; a single timeout is inconclusive',
               'script completeness is judged by the shell-specific registration block at the end of the output',
               'exponential automaton blow-up is not hunted (inherent to subset construction)']
MIN_EVALS = {'quick': 2500, 'thorough': 25000}

TAILS = {'bash': b'complete -o nospace -F _', 'fish': b'complete --command ', 'zsh': b'compdef _',
         'pwsh': b'return $results\n}\n'}
SENTINEL = b'SENTINEL do not touch\n'


def run_binary(binary, data, shell, dest, inp, wd, timeout=20, extra_args=()):
    ipath = os.path.join(wd, 'in.usage')
    opath = os.path.join(wd, '_cmd')
    for p in (opath,):
        if os.path.exists(p):
            os.unlink(p)
    if dest == 'existing':
        with open(opath, 'wb') as f:
            f.write(SENTINEL)
    if inp == 'path':
        with open(ipath, 'wb') as f:
            f.write(data)
    out_arg = '-' if dest == 'stdout' else opath
    in_arg = '-' if inp == 'stdin' else ipath
    args = ['prlimit', '--as=8589934592', '--', binary, '--' + shell, out_arg] + list(extra_args) + [in_arg]
    t0 = time.time()
    try:
        p = subprocess.run(args, input=data if inp == 'stdin' else None,
                           stdin=None if inp == 'stdin' else subprocess.DEVNULL,
                           stdout=subprocess.PIPE, stderr=subprocess.PIPE, timeout=timeout, cwd=wd)
    except subprocess.TimeoutExpired:
        return {'timeout': True, 'wall': time.time() - t0}
    destc = None
    if dest != 'stdout' and os.path.exists(opath):
        with open(opath, 'rb') as f:
            destc = f.read()
    return {'timeout': False, 'rc': p.returncode, 'stdout': p.stdout, 'stderr': p.stderr, 'dest': destc,
            'wall': time.time() - t0}


def panic_message(stderr):
    lines = stderr.decode('utf-8', 'replace').split('\n')
    for i, l in enumerate(lines):
        if 'panicked at' in l:
            loc = l.split('panicked at', 1)[1].strip().rstrip(':')
            f = loc.split(':')[0]
            if '/rustc/' in f:
                f = 'std'
            msg = lines[i + 1].strip() if i + 1 < len(lines) else ''
            return '%s: %s' % (f, msg[:80])
    return None


def judge(res, shell, dest, expect_accept):
    """-> None or (sig, detail)"""
    if res.get('timeout'):
        return ('timeout', 'no exit within the budget')
    rc = res['rc']
    err = res['stderr']
    if rc < 0:
        if b'overflowed its stack' in err:
            return ('stack-overflow', 'signal %d' % -rc)
        if b'memory allocation' in err:
            return None  # resource cap reached: inconclusive, handled by the caller
        return ('signal:%d' % -rc, err[-300:].decode('utf-8', 'replace'))
    if rc == 101:
        return ('panic: ' + (panic_message(err) or '?'), err[:400].decode('utf-8', 'replace'))
    if rc not in (0, 1):
        return ('exit-status:%d' % rc, err[:300].decode('utf-8', 'replace'))
    if rc == 0:
        script = res['stdout'] if dest == 'stdout' else res['dest']
        if script is None:
            return ('success-without-script', 'destination file missing')
        if dest != 'stdout' and res['stdout']:
            return ('success-wrote-to-stdout-too', res['stdout'][:100].decode('utf-8', 'replace'))
        if TAILS[shell] not in script[-400:]:
            return ('incomplete-script', script[-200:].decode('utf-8', 'replace'))
        return None
    # rc == 1
    if not err.strip():
        return ('failure-without-diagnostic', '')
    if res['stdout']:
        return ('failure-wrote-to-stdout', res['stdout'][:100].decode('utf-8', 'replace'))
    if dest == 'newfile' and res['dest'] is not None:
        return ('failure-created-destination', '')
    if dest == 'existing' and res['dest'] != SENTINEL:
        return ('failure-touched-destination', '')
    if expect_accept:
        return ('clean-grammar-rejected', err[:300].decode('utf-8', 'replace'))
    return None


def exercise(acc, wd, data, input_class, r, expect_accept=False, shells=None, with_chk=False, origin=''):
    shell = r.choice(shells or common.SHELLS)
    dest = r.choice(['stdout', 'stdout', 'newfile', 'existing'])
    inp = r.choice(['path', 'stdin'])
    bins = [('release', paths.COMPLGEN)]
    if with_chk:
        bins.append(('debug-assertions', paths.COMPLGEN_CHK))
    for bname, b in bins:
        res = run_binary(b, data, shell, dest, inp, wd)
        acc.evals += 1
        acc.count('runs_' + bname)
        v = judge(res, shell, dest, expect_accept)
        if v and v[0] == 'timeout':
            res = run_binary(b, data, shell, dest, inp, wd, timeout=200)
            v = judge(res, shell, dest, expect_accept)
            if v and v[0] == 'timeout':
                v = ('hang', 'no exit within 20 s and again within 200 s')
            else:
                acc.inconclusive.append('one timeout (passed alone) on %r' % data[:80])
        if not res.get('timeout'):
            rc = res['rc']
            acc.count('exit_%s' % ('signal' if rc < 0 else rc))
            if rc == 1:
                first = res['stderr'].decode('utf-8', 'replace').split('\n')[0]
                kind = first.split('error:')[-1].strip() if 'error:' in first else first[:40]
                acc.count('diag: ' + kind[:50])
            if rc != 0 or b'warning' in res['stderr'] or b'<' in data:
                acc.seen(data.decode('latin1'))
            if len(acc.samples) < 3 and (rc == 1 or input_class == 'valid') and len(data) < 600:
                acc.sample({'input_class': input_class, 'input': data.decode('utf-8', 'replace'), 'shell': shell,
                            'destination': dest, 'input_via': inp, 'build': bname, 'exit': rc,
                            'stderr_first_line': res['stderr'].decode('utf-8', 'replace').split('\n')[0][:160]})
            if rc == 0 and shell == 'bash' and r.random() < 0.02:
                script = res['stdout'] if dest == 'stdout' else res['dest']
                import re
                reg = re.search(rb'^complete -o nospace -F (\S+) (\S+)$', script or b'', re.M)
                # only for plain command names: what a name such as "`md" (a mutated input) does to the function
                # names of the script is outside every property (C07 is about literals and descriptions)
                if reg and re.fullmatch(rb'[A-Za-z0-9_.+-]+', reg.group(2)):
                    ok, msg = bashrun.bash_syntax_ok(script.decode('utf-8', 'replace'))
                    acc.count('bash_n_checked')
                    if not ok:
                        v = v or ('bash-n-fails', msg[:300])
        if v:
            acc.violation({'sig': v[0], 'input_class': input_class, 'build': bname, 'shell': shell,
                           'dest': dest, 'input_via': inp, 'grammar': data.decode('utf-8', 'replace')[:2000],
                           'input_hex': data.hex() if len(data) < 4000 else None, 'observed': v[1],
                           'origin': origin})
            return False
    return True


def make_jobs(tier, seed):
    q = tier == 'quick'
    jobs = [('fixed', seed)]
    k = 8 if q else 64
    for i in range(k):
        jobs.append(('valid', seed * 1000003 + i, 40 if q else 60))
        jobs.append(('mut', seed * 1000003 + 100 + i, 170 if q else 250))
        jobs.append(('soup', seed * 1000003 + 200 + i, 50 if q else 70))
        jobs.append(('bytes', seed * 1000003 + 300 + i, 30 if q else 40))
        jobs.append(('planted', seed * 1000003 + 500 + i, 60 if q else 90))
        jobs.append(('mlwarn', seed * 1000003 + 700 + i, 25 if q else 40))
    for i in range(12 if q else 64):
        jobs.append(('probe', seed * 1000003 + 400 + i, 4000 if q else 12000))
    for i in range(8 if q else 48):
        jobs.append(('wild', seed * 1000003 + 600 + i, 3000 if q else 8000))
    return jobs


def valid_text(r, layout=False):
    stmts = c02.random_grammar(r)
    if layout:
        text, toks, _ = gast.print_grammar(stmts, layout=r)
    else:
        text, toks, _ = gast.print_grammar(stmts)
    return text, toks


def run_job(job, acc):
    wd = bashrun.make_workdir('c06')
    try:
        kind = job[0]
        r = random.Random(job[1])
        if kind == 'fixed':
            for data in hostile.cyclic_grammars():
                exercise(acc, wd, data, 'cycle', r, with_chk=True, origin='fixed list: cycles')
            for data in hostile.multiline_shapes():
                for sh in common.SHELLS:
                    exercise(acc, wd, data, 'multiline-and-edge-shapes', r, shells=[sh], with_chk=(sh == 'bash'),
                             origin='fixed list: shapes')
            for depth in (10, 100, 1000):
                for o, c in (('(', ')'), ('[', ']')):
                    exercise(acc, wd, hostile.nested(depth, o, c), 'nesting-depth-%d' % depth, r, with_chk=(depth <= 100),
                             origin='nesting')
            for o, c in (('(', ')'), ('[', ']')):
                exercise(acc, wd, hostile.nested(20000, o, c), 'deep-nesting', r, origin='nesting 20000')
            for name in sorted(os.listdir(os.path.join(paths.REPO, 'examples'))):
                with open(os.path.join(paths.REPO, 'examples', name), 'rb') as f:
                    data = f.read()
                for sh in common.SHELLS:
                    exercise(acc, wd, data, 'bundled-example', r, expect_accept=True, shells=[sh], with_chk=True,
                             origin=name)
            # side outputs that cannot be written: still exit 0 + complete script, or exit 1 + untouched destination
            ok_grammar = b'cmd (--color=(always|never) | sub <FILE>) [x "d"];\n'
            for sh in common.SHELLS:
                for flag in ('--dfa', '--regex'):
                    for dest in ('newfile', 'existing', 'stdout'):
                        res = run_binary(paths.COMPLGEN, ok_grammar, sh, dest, 'path', wd,
                                         extra_args=[flag, os.path.join(wd, 'no-such-dir', 'x.dot')])
                        acc.evals += 1
                        acc.count('runs_unwritable_side_output')
                        v = judge(res, sh, dest, False)
                        if v:
                            acc.violation({'sig': v[0], 'input_class': 'unwritable-side-output', 'build': 'release',
                                           'shell': sh, 'dest': dest, 'input_via': 'path',
                                           'grammar': ok_grammar.decode(), 'observed': v[1],
                                           'origin': '%s to a directory that does not exist' % flag})
        elif kind == 'valid':
            for i in range(job[2]):
                text, _ = valid_text(r, layout=r.random() < 0.5)
                exercise(acc, wd, text.encode(), 'valid', r, expect_accept=True, with_chk=(i % 5 == 0),
                         origin='valid seed=%d #%d' % (job[1], i))
        elif kind == 'mut':
            base = None
            for i in range(job[2]):
                if base is None or i % 6 == 0:
                    base = valid_text(r, layout=r.random() < 0.5)
                data = hostile.token_mutations(r, base[0], base[1])
                if isinstance(data, str):
                    data = data.encode()
                exercise(acc, wd, data, 'mutation', r, with_chk=(i % 6 == 0),
                         origin='mutation seed=%d #%d' % (job[1], i))
        elif kind == 'mlwarn':
            # warning-only grammars whose warned-about names span lines (a newline inside <...>)
            from . import c15
            for i in range(job[2]):
                sh = r.choice(common.SHELLS)
                stmts = c15.make_grammar(r, sh)
                brk = r.choice(['\n', '\n\n', ' \n', '\t\n ', 'x\n'])

                def ren(nm):
                    return nm[:1] + brk + nm[1:] if nm.startswith('N') and r.random() < 0.7 else nm
                names = {}

                def f(e):
                    if e[0] == 'nt':
                        names.setdefault(e[1], ren(e[1]))
                        return ('nt', names[e[1]])
                    return e
                out = []
                for st in stmts:
                    if st[0] == 'call':
                        out.append(('call', st[1], gast.map_expr(f, st[2])))
                    else:
                        names.setdefault(st[1], ren(st[1]))
                        out.append(('def', names[st[1]], st[2], gast.map_expr(f, st[3])))
                text, _, _ = gast.print_grammar(out, layout=r if r.random() < 0.5 else None)
                exercise(acc, wd, text.encode(), 'multi-line-warning', r, expect_accept=True, shells=[sh],
                         with_chk=(i % 5 == 0), origin='mlwarn seed=%d #%d' % (job[1], i))
        elif kind == 'planted':
            from . import c08
            for i in range(job[2]):
                base = c08.base_grammar(r)
                sh = r.choice(common.SHELLS)
                # cycles are the mistakes that make a compiler recurse for ever: every third plant is one
                pk, stmts, _ = c08.plant(r, base, sh, kind='cycle' if i % 3 == 0 else None)
                text, _, _ = gast.print_grammar(stmts, layout=r if r.random() < 0.5 else None)
                exercise(acc, wd, text.encode(), 'planted-' + pk, r, shells=[sh], with_chk=(i % 4 == 0),
                         origin='planted seed=%d #%d' % (job[1], i))
        elif kind == 'soup':
            for i in range(job[2]):
                exercise(acc, wd, hostile.token_soup(r), 'token-soup', r, with_chk=(i % 6 == 0),
                         origin='soup seed=%d #%d' % (job[1], i))
        elif kind == 'bytes':
            for i in range(job[2]):
                exercise(acc, wd, hostile.random_bytes(r), 'bytes', r, with_chk=(i % 6 == 0),
                         origin='bytes seed=%d #%d' % (job[1], i))
        elif kind == 'wild':
            # syntactically valid trees of every shape (nested descriptions, descriptions on groups and
            # nonterminals, odd names): most are rejected semantically, none may crash
            from . import c05
            P = probe.Probe()
            try:
                for i in range(job[2]):
                    stmts = c05.rand_grammar(r)
                    stmts = [('call', 'cmd', st[2]) if st[0] == 'call' else st for st in stmts]
                    if not any(st[0] == 'call' for st in stmts):
                        stmts.append(('call', 'cmd', c05.rand_tree(r, 3)))
                    text = gast.print_grammar(stmts)[0]
                    shell = r.choice(common.SHELLS)
                    ans = P.ask('w', shell, 'script,dot', text)
                    acc.count('library_pipeline_runs')
                    acc.count('library_stage_' + str(ans.get('stage')))
                    if ans.get('stage') in ('panic', 'crash'):
                        acc.count('library_crash_candidates')
                        exercise(acc, wd, text.encode(), 'wild-tree(found in-process)', r, shells=[shell],
                                 origin='wild seed=%d #%d %s' % (job[1], i, ans.get('panic') or ''))
            finally:
                P.close()
        elif kind == 'probe':
            P = probe.Probe()
            try:
                base = None
                for i in range(job[2]):
                    k = r.random()
                    if k < 0.75:
                        if base is None or i % 8 == 0:
                            base = valid_text(r, layout=r.random() < 0.5)
                        data = hostile.token_mutations(r, base[0], base[1])
                        if isinstance(data, str):
                            data = data.encode()
                        cls = 'mutation'
                    elif k < 0.9:
                        data = hostile.token_soup(r)
                        cls = 'token-soup'
                    else:
                        data = hostile.random_bytes(r)
                        cls = 'bytes'
                    shell = r.choice(common.SHELLS)
                    ans = P.ask('p', shell, 'script,dot', data)
                    acc.count('library_pipeline_runs')
                    acc.count('library_stage_' + str(ans.get('stage')))
                    if ans.get('stage') in ('panic', 'crash'):
                        acc.count('library_crash_candidates')
                        exercise(acc, wd, data, cls + '(found in-process)', r, shells=[shell],
                                 origin='probe seed=%d #%d %s' % (job[1], i, ans.get('panic') or ans.get('stderr', '')[:100]))
            finally:
                P.close()
    finally:
        shutil.rmtree(wd, ignore_errors=True)


def replay(w, acc):
    wd = bashrun.make_workdir('c06r')
    try:
        data = bytes.fromhex(w['input_hex']) if w.get('input_hex') else w['grammar'].encode()
        b = paths.COMPLGEN if w['build'] == 'release' else paths.COMPLGEN_CHK
        res = run_binary(b, data, w['shell'], w['dest'], w['input_via'], wd)
        print({k: (v[:500] if isinstance(v, bytes) else v) for k, v in res.items()})
        acc.evals += 1
        v = judge(res, w['shell'], w['dest'], False)
        if v:
            acc.violation({'sig': v[0], 'observed': v[1], 'grammar': w['grammar']})
    finally:
        shutil.rmtree(wd, ignore_errors=True)
