"""C11 - the definition chosen for a nonterminal is the one for the target shell."""
import itertools
import os
import re
import shutil

from .. import gast, probe, bashrun, refsem, compile as comp
from ..gast import lit, nt, cmd, seq, alt, call, defn
from . import common

PROPERTY = 'C11'
LEVEL = 'exploration'
WORKERS = 4
EXHAUSTIVE = {'quick': True, 'thorough': True}
RULE = ('complete enumeration: every subset of {plain, @bash, @fish, @zsh, @pwsh} command definitions (32) x name in '
        '{X, PATH, DIRECTORY} x reference position {top level, tail of a word, through another definition, through two '
        'definitions under four different pairs of names, under ||, ... and a within-word ||, and behind one definition below [], ..., || and inside a word} inside a word that follows another external command, and behind three definitions (16) x 4 target shells = 6144 grammars, each definition with its own marker command `echo M_<name>_<flavour>`; plus plain '
        'non-command definitions of PATH / DIRECTORY. The rule of the statement (X@S, else plain, else built-in for '
        'PATH/DIRECTORY, else any word) is observed (1) on the command symbols of the automaton compiled by the real '
        'pipeline, (2) on the _<cmd>_cmd_N bodies of the script the real binary emits for the target (chosen marker '
        'present, every other marker absent) and (3) for bash by execution (the marker output is offered; built-in '
        'PATH offers files and directories of a scratch directory, DIRECTORY only directories; any-word offers nothing '
        'and the next word is reached). non-trivial = every case; distinct by (grammar, target)')
ASSUMPTIONS = ['for fish / zsh / pwsh the built-in case is judged as "one command body that is none of the grammar\'s markers"',
               'zsh: definitions for zsh and built-ins are compadd-style commands, plain {{{ }}} definitions are stdout commands']
MIN_EVALS = {'quick': 5800, 'thorough': 5800}
FLAVOURS = ('plain', 'bash', 'fish', 'zsh', 'pwsh')
NAMES = ('X', 'PATH', 'DIRECTORY')
POSITIONS = ('top', 'word', 'via')
# a reference behind two definitions; the names vary because hash-map order of definition names must not matter
VIA2 = {'via2-SUB-OPT': ('SUB', 'OPT'), 'via2-A-B': ('A', 'B'), 'via2-FIRST-SECOND': ('FIRST', 'SECOND'),
        'via2-OUTER-INNER': ('OUTER', 'INNER')}


# behind three definitions (a chain long enough for the order in which definitions are expanded to matter)
VIA3 = {'via3-A-B-C': ('A', 'B', 'C')}
VIA_UNDER = {
    'via-under-optional': lambda x: seq(lit('--opt'), gast.opt(x)),
    'via-under-repeat': lambda x: seq(lit('go'), gast.many(x)),
    'via-under-fallback': lambda x: gast.fb(x, lit('backup')),
    'via-in-word': lambda x: ('word', (lit('k='), x)),
}


OTHER_CMD = 'echo OTHERCMD'


def marker(name, fl):
    return 'echo M_%s_%s' % (name, fl)


def build(name, subset, pos):
    stmts = []
    if pos == 'top':
        stmts.append(call('cmd', seq(nt(name), lit('after'))))
    elif pos == 'word':
        stmts.append(call('cmd', seq(('word', (lit('pre='), nt(name))), lit('after'))))
    elif pos == 'under-fallback':
        stmts.append(call('cmd', seq(gast.fb(nt(name), lit('backup')), lit('after'))))
    elif pos == 'under-repeat':
        stmts.append(call('cmd', seq(gast.many(gast.alt(lit('k'), nt(name))), lit('after'))))
    elif pos == 'under-fallback-in-word':
        stmts.append(call('cmd', seq(('word', (lit('pre='), gast.fb(lit('v'), nt(name)))), lit('after'))))
    elif pos == 'word-after-command':
        # another external command comes first in the script-wide numbering; the word must still run its own
        stmts.append(call('cmd', seq(cmd(OTHER_CMD), ('word', (lit('pre='), nt(name))), lit('after'))))
    elif pos in VIA_UNDER:
        # behind one definition, and there below an operator: the dependency between definitions must be seen there
        stmts.append(call('cmd', seq(nt('W'), lit('after'))))
        stmts.append(defn('W', None, VIA_UNDER[pos](nt(name))))
    elif pos in VIA3:
        n1, n2, n3 = VIA3[pos]
        stmts.append(call('cmd', seq(nt(n1), lit('after'))))
        stmts.append(defn(n1, None, seq(lit('a'), nt(n2))))
        stmts.append(defn(n2, None, seq(lit('b'), nt(n3))))
        stmts.append(defn(n3, None, seq(lit('c'), nt(name))))
    elif pos in VIA2:
        n1, n2 = VIA2[pos]
        stmts.append(call('cmd', seq(nt(n1), lit('after'))))
        stmts.append(defn(n1, None, seq(lit('go'), nt(n2))))
        stmts.append(defn(n2, None, nt(name)))
    else:
        stmts.append(call('cmd', seq(nt('W'), lit('after'))))
        stmts.append(defn('W', None, alt(lit('x'), nt(name))))
    for fl in subset:
        stmts.append(defn(name, None if fl == 'plain' else fl, cmd(marker(name, fl))))
    return stmts


def expected_choice(name, subset, target):
    if target in subset:
        return ('marker', target)
    if 'plain' in subset:
        return ('marker', 'plain')
    if name in ('PATH', 'DIRECTORY'):
        return ('builtin', None)
    return ('any', None)


def all_cases():
    for name in NAMES:
        for k in range(len(FLAVOURS) + 1):
            for subset in itertools.combinations(FLAVOURS, k):
                for pos in POSITIONS + tuple(VIA2) + ('under-fallback', 'under-repeat', 'under-fallback-in-word') + \
                        tuple(VIA_UNDER) + ('word-after-command',) + tuple(VIA3):
                    for target in common.SHELLS:
                        yield (name, subset, pos, target)


def make_jobs(tier, seed):
    cases = list(all_cases())
    n = 48
    jobs = [('cases', i, n) for i in range(n)]
    jobs.append(('noncommand',))
    return jobs


def command_bodies(script, shell):
    """Bodies of the _cmd_cmd_N functions of an emitted script."""
    out = {}
    if shell in ('bash', 'zsh'):
        pat = re.compile(r'^_cmd_cmd_(\d+) \(\) \{\n(.*?)\n\}\n', re.S | re.M)
    elif shell == 'fish':
        pat = re.compile(r'^function _cmd_cmd_(\d+)\n(.*?)\nend\n', re.S | re.M)
    else:
        pat = re.compile(r'^function _cmd_cmd_(\d+) \{\n(.*?)\n\}\n', re.S | re.M)
    for m in pat.finditer(script):
        out[int(m.group(1))] = m.group(2).strip()
    return out


def judge_static(case, text, P, acc):
    name, subset, pos, target = case
    choice = expected_choice(name, subset, target)
    markers = {marker(name, fl): fl for fl in subset}
    base = {'grammar': text, 'shell': target, 'case': {'name': name, 'defined': list(subset), 'position': pos},
            'expected': '%s %s' % choice}
    # (1) automaton
    ans = P.ask('c', target, 'dfa', text)
    if ans.get('stage') != 'done':
        acc.violation(dict(base, sig='case-not-accepted', observed={k: ans.get(k) for k in ('stage', 'error', 'panic')}))
        return None
    syms = []
    for flat in [ans['dfa_min']['main']] + list(ans['dfa_min']['subs'].values()):
        used = {i for _, i, _ in flat['tr']}
        for i in used:
            inp = flat['inputs'][i]
            if inp['k'] in ('C', 'A', '*'):
                syms.append((inp['k'], inp.get('c')))
    cmds = [(k, c) for k, c in syms if k != '*' and not (pos == 'word-after-command' and c == OTHER_CMD)]
    stars = [s for s in syms if s[0] == '*']
    problem = None
    if choice[0] == 'marker':
        want_kind = 'A' if (target == 'zsh' and choice[1] == 'zsh') else 'C'
        want = (want_kind, marker(name, choice[1]))
        if set(cmds) != {want} or stars:
            problem = 'automaton has commands %s / any-word %d, expected exactly %s' % (sorted(set(cmds)), len(stars), want)
    elif choice[0] == 'builtin':
        if len(set(cmds)) != 1 or stars or any(c in markers for _, c in cmds):
            problem = 'automaton has commands %s, expected one built-in command' % sorted(set(cmds))
        elif target == 'zsh' and cmds[0][0] != 'A':
            problem = 'built-in for zsh is not a compadd-style command'
    else:
        if cmds or not stars:
            problem = 'automaton has commands %s / any-word %d, expected any-word only' % (sorted(set(cmds)), len(stars))
    if problem:
        acc.violation(dict(base, sig='wrong-definition-in-automaton:' + sig_class(name, subset, target), what=problem))
        return None
    # (2) emitted script of the real binary
    rc, out, err = comp.compile_text(text, target)
    if rc != 0:
        acc.violation(dict(base, sig='case-not-accepted', observed=err.decode('utf-8', 'replace')[:300]))
        return None
    script = out.decode('utf-8', 'replace')
    bodies = command_bodies(script, target)
    if pos == 'word-after-command':
        bodies = {k: v for k, v in bodies.items() if v != OTHER_CMD}
    found_markers = set(re.findall(r'echo M_\w+', script))
    if choice[0] == 'marker':
        want = marker(name, choice[1])
        if found_markers != {want} or list(bodies.values()) != [want]:
            problem = 'script runs %s (bodies %s), expected only %s' % (sorted(found_markers), bodies, want)
    elif choice[0] == 'builtin':
        if found_markers or len(bodies) != 1 or not list(bodies.values())[0]:
            problem = 'script has markers %s and bodies %s, expected one non-empty built-in body' % (sorted(found_markers), bodies)
    else:
        if found_markers or bodies:
            problem = 'script has command functions %s, expected none' % bodies
    if problem:
        acc.violation(dict(base, sig='wrong-definition-in-script:' + sig_class(name, subset, target), what=problem))
        return None
    return out


def sig_class(name, subset, target):
    """Coarse class of a case, used in signatures."""
    if target in subset:
        return 'target-specific-exists'
    if 'plain' in subset:
        return ('plain-definition-of-builtin-name' if name in ('PATH', 'DIRECTORY') else 'plain-definition')
    if name in ('PATH', 'DIRECTORY'):
        return 'builtin'
    return 'undefined'


def judge_bash(case, text, script, acc, scratch):
    name, subset, pos, target = case
    choice = expected_choice(name, subset, 'bash')
    lead = 'pre=' if pos in ('word', 'word-after-command') else ''
    before = ['OTHERCMD'] if pos == 'word-after-command' else []
    n0 = len(before)
    qs = [{'words': ['cmd'] + before + [lead], 'cword': n0 + 1, 'wb': ''},
          {'words': ['cmd'] + before + [lead + 'zzz', ''], 'cword': n0 + 2, 'wb': ''}]
    if pos == 'word-after-command':
        # the word completed with what the chosen definition offers must be matched by running that definition
        full = {'marker': 'M_%s_%s' % (name, choice[1]), 'builtin': 'd1', 'any': 'whatever'}[choice[0]]
        qs.append({'words': ['cmd'] + before + [lead + full, ''], 'cword': n0 + 2, 'wb': ''})
    res = bashrun.run_session(script.decode(), 'cmd', qs, cwd=scratch)
    if res['timed_out'] or res['source_rc'] != 0 or res['results'][0] is None:
        acc.inconclusive.append('bash session failed for %s' % text)
        return
    acc.count('bash_sessions')
    first = {c[:-1] if c.endswith(' ') else c for c in res['results'][0]['reply']}
    second = {c[:-1] if c.endswith(' ') else c for c in res['results'][1]['reply']} if res['results'][1] else None
    extra = {'x'} if pos == 'via' else set()
    base = {'grammar': text, 'shell': 'bash', 'case': {'name': name, 'defined': list(subset), 'position': pos}}
    if choice[0] == 'marker':
        want = {lead + 'M_%s_%s' % (name, choice[1])} | extra
    elif choice[0] == 'builtin':
        want = {lead + x for x in (['f1', 'f2', 'd1', 'd2'] if name == 'PATH' else ['d1', 'd2'])} | extra
    else:
        want = set() | extra
    if first != want:
        acc.violation(dict(base, sig='wrong-definition-executed:' + sig_class(name, subset, 'bash'),
                           expected=sorted(want), observed=sorted(first), query=qs[0]))
        return
    if pos == 'word-after-command':
        third = {c[:-1] if c.endswith(' ') else c for c in res['results'][2]['reply']} if res['results'][2] else None
        if third != {'after'}:
            acc.violation(dict(base, sig='chosen-definition-not-run-when-matching:' + sig_class(name, subset, 'bash'),
                               expected=['after'], observed=sorted(third or []), query=qs[2]))
            return
    if choice[0] == 'any' and second != {'after'}:
        acc.violation(dict(base, sig='any-word-does-not-advance', expected=['after'], observed=sorted(second or []), query=qs[1]))


def run_job(job, acc):
    P = probe.Probe()
    scratch = bashrun.make_workdir('c11')
    try:
        for f in ('f1', 'f2'):
            open(os.path.join(scratch, f), 'w').close()
        for d in ('d1', 'd2'):
            os.makedirs(os.path.join(scratch, d), exist_ok=True)
        if job[0] == 'noncommand':
            # a plain non-command definition of PATH / DIRECTORY overrides the built-in
            for name in ('PATH', 'DIRECTORY'):
                for target in common.SHELLS:
                    for pos in POSITIONS:
                        stmts = build(name, (), pos) + [defn(name, None, alt(lit('foo'), lit('bar')))]
                        text, _, _ = gast.print_grammar(stmts)
                        acc.evals += 1
                        acc.seen((text, target))
                        rc, out, err = comp.compile_text(text, target)
                        bodies = command_bodies(out.decode('utf-8', 'replace'), target) if rc == 0 else None
                        if rc != 0 or bodies:
                            acc.violation({'sig': 'wrong-definition-in-script:plain-definition-of-builtin-name',
                                           'grammar': text, 'shell': target,
                                           'what': 'plain definition `<%s> = foo | bar` must replace the built-in' % name,
                                           'observed': {'rc': rc, 'command_bodies': bodies}})
                            continue
                        if target == 'bash':
                            lead = 'pre=' if pos == 'word' else ''
                            res = bashrun.run_session(out.decode(), 'cmd', [{'words': ['cmd', lead], 'cword': 1, 'wb': ''}], cwd=scratch)
                            got = {c.rstrip(' ') for c in res['results'][0]['reply']} if res['results'][0] else None
                            want = {lead + 'foo', lead + 'bar'} | ({'x'} if pos == 'via' else set())
                            if got != want:
                                acc.violation({'sig': 'wrong-definition-executed:plain-definition-of-builtin-name',
                                               'grammar': text, 'shell': 'bash', 'expected': sorted(want), 'observed': sorted(got or [])})
            return
        _, shard, n = job
        for idx, case in enumerate(all_cases()):
            if idx % n != shard:
                continue
            name, subset, pos, target = case
            text, _, _ = gast.print_grammar(build(name, subset, pos))
            acc.evals += 1
            acc.seen((text, target))
            acc.count('cases_' + expected_choice(name, subset, target)[0])
            script = judge_static(case, text, P, acc)
            if script is not None and target == 'bash' and pos in POSITIONS + ('word-after-command',):
                judge_bash(case, text, script, acc, scratch)
            if script is not None:
                acc.sample({'grammar': text, 'target': target, 'expected': expected_choice(name, subset, target)})
    finally:
        P.close()
        shutil.rmtree(scratch, ignore_errors=True)


def replay(w, acc):
    rc, out, err = comp.compile_text(w['grammar'], w['shell'])
    print('rc', rc, 'bodies', command_bodies(out.decode('utf-8', 'replace'), w['shell']))
    print('expected', w.get('expected'), w.get('what'))
    acc.evals += 1
