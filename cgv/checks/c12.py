"""C12 - inside a word, overlapping alternatives are told apart correctly."""
import random

from .. import gast, bashrun, compile as comp
from ..gast import lit, nt, alt, seq, call, defn

PROPERTY = 'C12'
LEVEL = 'exploration'
WORKERS = 3
RULE = ('grammars `cmd PRE(v1|...|vn)[SUF] next` (also through a definition, without PRE when a suffix is present, '
        'two such words in sequence, two alternative words of the same shape, the word as a later `||` branch, and two groups of the same values in one word with one value described differently in each) whose value sets are drawn from random tries with prefix chains '
        '(2-8 values, length 1-6) are compiled by the real binary and run in a real bash: every value typed as a '
        'complete word must be recognised (the next position offers `next`), every non-value must not, and every '
        'proper prefix of a value typed as the cursor word must offer exactly the values extending it. The case '
        'the statement leaves open (cursor directly after a maximal value) is recorded, not judged. '
        'non-trivial = query on a value set that contains at least one prefix pair; distinct by (grammar, words)')
ASSUMPTIONS = ['bash 5.2, COMP_WORDBREAKS empty so that no stripping is involved',
               'with an in-word suffix, a cursor word that is itself a complete value is not judged (two legal readings)']
MIN_EVALS = {'quick': 500, 'thorough': 5000}

PRES = ['--opt=', '-o', 'key:', '--with-']


def value_set(r):
    alpha = 'abcd'
    vals = set()
    n = r.randint(2, 8)
    tries = 0
    while len(vals) < n and tries < 100:
        tries += 1
        if vals and r.random() < 0.6:
            base = r.choice(sorted(vals))
            k = r.random()
            if k < 0.6 and len(base) < 6:
                v = base + ''.join(r.choice(alpha) for _ in range(r.randint(1, 2)))
            elif len(base) > 1:
                v = base[:r.randint(1, len(base) - 1)]
            else:
                v = base + r.choice(alpha)
        else:
            v = ''.join(r.choice(alpha) for _ in range(r.randint(1, 4)))
        vals.add(v[:6])
    return sorted(vals)


def has_prefix_pair(vals):
    return any(a != b and b.startswith(a) for a in vals for b in vals)


def make_case(r):
    vals = value_set(r)
    r.shuffle(vals)          # the order in which the grammar lists the values must not matter
    pre = r.choice(PRES)
    shape = r.choice(['plain', 'plain', 'def', 'suffix', 'two', 'twins', 'twins', 'later-branch', 'two-groups'])
    suf = ''
    V = alt(*[lit(v) for v in vals])
    stmts = []
    words_spec = []   # list of (pre, vals, suf) for the words in sequence
    if shape == 'plain':
        e = seq(('word', (lit(pre), V)), lit('next'))
        words_spec = [(pre, vals, '')]
    elif shape == 'def':
        e = seq(('word', (lit(pre), nt('V'))), lit('next'))
        stmts.append(defn('V', None, V))
        words_spec = [(pre, vals, '')]
    elif shape == 'suffix':
        suf = r.choice([':z', '=end', '/'])
        if r.random() < 0.5:
            e = seq(('word', (lit(pre), V, lit(suf))), lit('next'))
        else:
            pre = ''
            e = seq(('word', (V, lit(suf))), lit('next'))
        words_spec = [(pre, vals, suf)]
    elif shape == 'two-groups':
        # PRE(values),(values) in one word, one maximal value described differently in the two groups (one text,
        # two literal ids inside one nested automaton); judged by explicit queries, see two_group_queries
        maximal = [v for v in vals if not any(o != v and o.startswith(v) for o in vals)]
        mark = r.choice(maximal)
        g1 = alt(*[lit(v, 'first' if v == mark else None) for v in vals])
        g2 = alt(*[lit(v, 'last' if v == mark else None) for v in vals])
        e = seq(('word', (lit(pre), g1, lit(','), g2)), lit('next'))
        words_spec = [(pre, vals, ',' + mark)]
    elif shape == 'later-branch':
        # the word is the second or third `||` branch, behind plain literals that share no prefix with it
        first = [lit('foobar'), lit('zz9')][:r.randint(1, 2)]
        from ..gast import fb
        e = seq(fb(*(first + [('word', (lit(pre), V))])), lit('next'))
        words_spec = [(pre, vals, '')]
    elif shape == 'twins':
        # two alternative words of the same table shape (the second value set is the first one with its letters
        # renamed): emitters share one function per shape and must still keep each word's own texts
        ren = dict(zip('abcd', r.sample('wxyz', 4)))
        vals2 = [''.join(ren[c] for c in v) for v in vals]
        pre2 = r.choice([p for p in PRES if p != pre and not p.startswith(pre) and not pre.startswith(p)])
        e = seq(alt(('word', (lit(pre), V)), ('word', (lit(pre2), alt(*[lit(v) for v in vals2])))), lit('next'))
        words_spec = [(pre, vals, ''), (pre2, vals2, '')]
    else:
        vals2 = value_set(r)
        r.shuffle(vals2)
        pre2 = r.choice([p for p in PRES if p != pre])
        e = seq(('word', (lit(pre), V)), ('word', (lit(pre2), alt(*[lit(v) for v in vals2]))), lit('next'))
        words_spec = [(pre, vals, ''), (pre2, vals2, '')]
    return [call('cmd', e)] + stmts, words_spec, shape


def queries_for(r, words_spec):
    """-> list of (words, cword, kind, expected or None, info)"""
    out = []
    first = words_spec[0]
    chain = []          # complete words for earlier positions (use a maximal value: unambiguous)
    for wi, (pre, vals, suf) in enumerate(words_spec):
        last = wi == len(words_spec) - 1
        for v in vals:
            w = pre + v + suf
            shorter = any(o != v and o.startswith(v) for o in vals)
            if last:
                out.append((chain + [w, ''], 'value-recognised', {'next'}, {'value': v, 'shorter': shorter}))
            else:
                pre2, vals2, suf2 = words_spec[wi + 1]
                # the next word is itself a within-word expression: its first item is offered
                out.append((chain + [w, ''], 'value-recognised', {pre2} if pre2 else {x for x in vals2},
                            {'value': v, 'shorter': shorter}))
        # non-values
        for bad in ['zz', min(vals) + 'q', (max(vals) + 'a' + 'b')]:
            if bad not in vals and not any(x.startswith(bad) for x in vals):
                out.append((chain + [pre + bad + suf, ''], 'non-value', set(), {'value': bad}))
        # prefixes as cursor word
        pref = set()
        for v in vals:
            for k in range(0, len(v)):
                pref.add(v[:k])
        for p in sorted(pref):
            ext = {pre + v for v in vals if v.startswith(p)}
            judged = True
            if suf and p in vals:
                judged = False
            out.append((chain + [pre + p], 'prefix', ext if judged else None, {'prefix': p}))
        for v in vals:
            if not any(o != v and o.startswith(v) for o in vals):
                out.append((chain + [pre + v], 'after-maximal-value', None, {'value': v}))
        maximal = [v for v in vals if not any(o != v and o.startswith(v) for o in vals)]
        chain = chain + [pre + r.choice(maximal) + suf]
    return out


def two_group_queries(r, pre, vals, mark):
    maximal = [v for v in vals if not any(o != v and o.startswith(v) for o in vals)]
    out = []
    for x in [mark] + r.sample(maximal, min(2, len(maximal))):
        for y in [mark, r.choice(maximal)]:
            out.append(([pre + x + ',' + y, ''], 'value-recognised', {'next'}, {'value': x + ',' + y, 'shorter': False}))
    pref = set()
    for v in vals:
        for k in range(0, len(v)):
            if v[:k] not in vals:
                pref.add(v[:k])
    for p in sorted(pref):
        out.append(([pre + p], 'prefix', {pre + v for v in vals if v.startswith(p)}, {'prefix': p}))
        out.append(([pre + mark + ',' + p], 'prefix', {pre + mark + ',' + v for v in vals if v.startswith(p)}, {'prefix': p}))
    out.append(([pre + mark + ',' + 'zz', ''], 'non-value', set(), {'value': 'zz'}))
    return out


def make_jobs(tier, seed):
    k = 60 if tier == 'quick' else 500
    return [('j', seed * 1000003 + i) for i in range(k)]


def run_case(stmts, words_spec, shape, qs, acc, origin):
    text, _, _ = gast.print_grammar(stmts)
    rc, out, err = comp.compile_text(text, 'bash')
    if rc != 0:
        acc.count('not_accepted')
        acc.inconclusive.append('grammar not accepted: %s %s' % (text, err[:200]))
        return
    queries = [{'words': ['cmd'] + w, 'cword': len(w), 'wb': ''} for (w, kind, exp, info) in qs]
    res = bashrun.run_session(out.decode(), 'cmd', queries)
    if res['timed_out'] or res['source_rc'] != 0:
        acc.inconclusive.append('bash session failed for %s' % text)
        return
    pair = any(has_prefix_pair(v) for (_, v, _) in words_spec)
    for (w, kind, exp, info), ob in zip(qs, res['results']):
        if ob is None:
            acc.inconclusive.append('no answer')
            continue
        acc.evals += 1
        acc.count('queries_' + kind)
        got = {c[:-1] if c.endswith(' ') else c for c in ob['reply']}
        if pair:
            acc.seen((text, w))
        if exp is None:
            acc.count('recorded_not_judged')
            continue
        if got != exp:
            sig = 'within-word:' + kind
            if kind == 'value-recognised' and info.get('shorter') and not got:
                sig = 'shorter-value-not-recognised'
            acc.violation({'sig': sig, 'grammar': text, 'shell': 'bash', 'shape': shape,
                           'query': {'words': ['cmd'] + w, 'cword': len(w)}, 'expected': sorted(exp),
                           'observed': sorted(got), 'rc': ob['rc'], 'info': info, 'origin': origin})
    acc.sample({'grammar': text, 'values': [v for (_, v, _) in words_spec], 'queries': len(qs)})


def run_job(job, acc):
    r = random.Random(job[1])
    stmts, words_spec, shape = make_case(r)
    if shape == 'two-groups':
        pre0, vals0, suf0 = words_spec[0]
        qs = two_group_queries(r, pre0, vals0, suf0[1:])
        words_spec = [(pre0, vals0, '')]
    elif shape == 'twins':
        qs = queries_for(r, words_spec[:1]) + queries_for(r, words_spec[1:])
        r.shuffle(qs)
    else:
        qs = queries_for(r, words_spec)
    if len(qs) > 34:
        keep = [q for q in qs if q[1] == 'value-recognised']
        rest = [q for q in qs if q[1] != 'value-recognised']
        r.shuffle(rest)
        qs = (keep + rest)[:34]
    run_case(stmts, words_spec, shape, qs, acc, 'seed=%d' % job[1])


def replay(w, acc):
    rc, out, err = comp.compile_text(w['grammar'], 'bash')
    q = {'words': w['query']['words'], 'cword': w['query']['cword'], 'wb': ''}
    res = bashrun.run_session(out.decode(), 'cmd', [q])
    ob = res['results'][0]
    got = sorted({c[:-1] if c.endswith(' ') else c for c in ob['reply']})
    print('expected', w['expected'], 'observed', got, 'rc', ob['rc'])
    acc.evals += 1
    if got != w['expected']:
        acc.violation({'sig': w['sig'], 'grammar': w['grammar'], 'expected': w['expected'], 'observed': got})
