"""C16 - the --dfa and --regex Graphviz dumps are well-formed and show the real automaton."""
import os
import random
import shutil
import subprocess

from .. import gast, gen, probe, paths, dotparse, bashrun
from ..gast import lit, nt, cmd, seq, alt, fb, opt, many, call, defn
from . import common, c04, c07

PROPERTY = 'C16'
LEVEL = 'exploration'
WORKERS = 4
RULE = ('accepted grammars (the C04 profile with 0-5 within-word automata, plus literals, descriptions and commands '
        'drawn from the C07 alphabet: quotes, backslashes, braces, <>, $) are compiled by the real binary with '
        '--dfa F --regex G for each shell; both files are parsed with an independent DOT parser (Graphviz grammar and '
        'quoted-string rules). DFA file: node set = states of the automaton dumped by cgprobe for the same grammar, '
        'shifted by the shell\'s numbering base, each declared once per automaton; start node octagonal, accepting '
        'nodes double; one labelled edge per non-within-word transition whose decoded label contains the literal '
        'text / description / command; one cluster per nested automaton with its own states; dashed entry edge to '
        'the nested start state and dashed exit edges from the nested accepting states. Regex file: every literal '
        '(with description), command and nonterminal of the validated grammar is a node whose decoded label contains '
        'it. non-trivial = grammar with a nested automaton or a special character in a label; distinct by (text, shell)')
ASSUMPTIONS = ['Graphviz is not installed: validity is judged by cgv/dotparse.py',
               'edge labels are compared by containment of the item text, not by exact format']
MIN_EVALS = {'quick': 600, 'thorough': 6000}

BASE = {'bash': 0, 'fish': 1, 'zsh': 1, 'pwsh': 0}


def special_grammar(r):
    n = r.randint(2, 4)
    tops = []
    while len(tops) < n:
        s = c07.rand_string(r)
        if c07.usable_literal(s) and s not in tops:
            tops.append(s)
    branches = []
    for t in tops:
        d = r.choice(c07.DESCRS) if r.random() < 0.5 else None
        branches.append(lit(t, d))
    cmds = ['echo "q" \\', 'printf \'%s\\n\' "$1"', 'a\\"b', 'x { y } z', 'ls | grep "\\\\."', 'echo <a> $b `c`', '\\']
    branches.append(cmd(r.choice(cmds)))
    if r.random() < 0.6:
        w = ('word', (lit(r.choice(['--k=', 'q"=', 'b\\s='])), alt(lit('v1', r.choice(c07.DESCRS)), lit('v"2'), cmd(r.choice(cmds)))))
        branches.append(w)
    e = seq(alt(*branches), opt(nt(r.choice(['U', 'a"b', 'x\\y', 'N M']))), lit('end'))
    return [call('cmd', e)]


def shared_word_grammar(r):
    w = ('word', (lit(r.choice(['--color=', '-o', 'k:'])), alt(lit('always'), lit('never', 'no "colour"'))))
    refs = [seq(lit(x), nt('OPT')) for x in r.sample(['add', 'rm', 'mv', 'ls'], r.randint(2, 3))]
    if r.random() < 0.5:
        refs.append(seq(lit('both'), nt('OPT'), nt('OPT')))
    stmts = [call('cmd', alt(*refs)), defn('OPT', None, w if r.random() < 0.7 else alt(w, lit('plain')))]
    if r.random() < 0.4:
        stmts.append(call('cmd', seq(lit('again'), opt(nt('OPT')), cmd('echo "x\\y"'))))
    return stmts


def reordered_words_grammar(r):
    pres = r.sample(['--a=', '--b=', '-c', 'd:'], 3)
    mk = lambda p, vs: ('word', (lit(p), alt(*[lit(v) for v in vs])))
    w = [mk(pres[0], ['p', 'q']), mk(pres[1], ['x', 'y']), mk(pres[2], ['m', 'n', 'o'])]
    shapes = [
        alt(seq(lit('foo'), w[1]), w[0]),
        alt(seq(lit('foo'), lit('bar'), w[2]), seq(lit('foo'), w[1]), w[0]),
        alt(seq(lit('z'), w[0]), seq(lit('a'), w[1])),
        seq(alt(seq(lit('deep'), opt(lit('er')), w[1]), w[0]), opt(w[2])),
    ]
    return [call('cmd', r.choice(shapes))]


def states_of(flat):
    s = {flat['start']} | set(flat['acc'])
    for a, _, b in flat['tr']:
        s.add(a)
        s.add(b)
    return s


def rust_debug(s):
    """How Rust's {:?} spells a string (the DFA dump shows descriptions that way)."""
    out = []
    for c in s:
        out.append({'\t': '\\t', '\n': '\\n', '\r': '\\r', '\\': '\\\\', '"': '\\"', '\0': '\\0'}.get(c, c))
    return ''.join(out)


def label_ok(inp, label):
    k = inp['k']
    if k == 'L':
        return inp['t'] in label and (inp['d'] is None or inp['d'] in label or rust_debug(inp['d']) in label)
    if k in ('C', 'A'):
        return inp['c'] in label
    if k == '*':
        return '*' in label
    return True


def check_dfa_dot(text, dump, base, prefix_of=None):
    """-> list of problems"""
    try:
        g = dotparse.parse(text)
    except dotparse.DotError as e:
        return ['--dfa file is not valid DOT: %s' % e]
    probs = []
    if not g.directed:
        probs.append('not a digraph')
    main = dump['main']
    top_nodes = {k: v for k, v in g.nodes.items()}
    want = {'_%d' % (s + base) for s in states_of(main)}
    got = set(top_nodes)
    if got != want:
        probs.append('top-level nodes %s, automaton states %s (numbering base %d)' % (sorted(got), sorted(want), base))
    start = '_%d' % (main['start'] + base)
    if start in top_nodes and top_nodes[start].get('shape') not in ('octagon', 'doubleoctagon', 'doublecircle'):
        probs.append('start node %s is drawn as %s' % (start, top_nodes[start].get('shape')))
    for a in main['acc']:
        nid = '_%d' % (a + base)
        if nid in top_nodes and top_nodes[nid].get('shape') not in ('doublecircle', 'doubleoctagon'):
            probs.append('accepting node %s is drawn as %s' % (nid, top_nodes[nid].get('shape')))
    for s in states_of(main):
        nid = '_%d' % (s + base)
        if nid in top_nodes and s not in main['acc'] and top_nodes[nid].get('shape') in ('doublecircle', 'doubleoctagon'):
            probs.append('non-accepting node %s is drawn as accepting' % nid)
    # clusters <-> nested automata
    clusters = [sg for sg in g.subgraphs if (sg.name or '').startswith('cluster')]
    if len(clusters) != len(dump['subs']):
        probs.append('%d clusters for %d nested automata' % (len(clusters), len(dump['subs'])))
    cluster_by_prefix = {}
    for sg in clusters:
        names = list(sg.nodes)
        if not names:
            probs.append('empty cluster %s' % sg.name)
            continue
        pref = names[0].rsplit('_', 1)[0] + '_'
        cluster_by_prefix[pref] = sg
    # edges of the main automaton
    edges = list(g.edges)
    used = [False] * len(edges)

    def take(a, b, pred):
        for i, (x, y, at) in enumerate(edges):
            if not used[i] and x == a and y == b and pred(at):
                used[i] = True
                return at
        return None
    def inner_problems(sub, pref, sg):
        """The cluster drawn under this prefix against one nested automaton: states, shapes, transitions."""
        out = []
        sedges = list(sg.edges)
        sused = [False] * len(sedges)
        for a, i, b in sub['tr']:
            inp = sub['inputs'][i]
            na, nb = '%s%d' % (pref, a + base), '%s%d' % (pref, b + base)
            hit = False
            for j, (x, y, at) in enumerate(sedges):
                if not sused[j] and x == na and y == nb and label_ok(inp, at.get('label', '')):
                    sused[j] = True
                    hit = True
                    break
            if not hit:
                out.append('cluster %s: no edge %s -> %s naming %s' % (sg.name, na, nb, inp.get('t') or inp.get('c') or inp['k']))
        if sum(1 for u in sused if not u):
            out.append('cluster %s: %d edges that correspond to no nested transition' % (sg.name, sum(1 for u in sused if not u)))
        st = '%s%d' % (pref, sub['start'] + base)
        if sg.nodes.get(st, {}).get('shape') not in ('octagon', 'doubleoctagon', 'doublecircle'):
            out.append('cluster %s: start node %s is drawn as %s' % (sg.name, st, sg.nodes.get(st, {}).get('shape')))
        for s_ in states_of(sub):
            nid = '%s%d' % (pref, s_ + base)
            drawn_acc = sg.nodes.get(nid, {}).get('shape') in ('doublecircle', 'doubleoctagon')
            if drawn_acc != (s_ in sub['acc']):
                out.append('cluster %s: node %s is drawn %s although the nested state is %s'
                           % (sg.name, nid, 'accepting' if drawn_acc else 'non-accepting',
                              'accepting' if s_ in sub['acc'] else 'not accepting'))
        return out

    # which cluster draws which nested automaton: the numbering of clusters is the emitter's own, so the
    # association is found by content (states, shapes and transitions of the cluster), never by position
    sub_ids = []
    for a, i, b in main['tr']:
        inp = main['inputs'][i]
        if inp['k'] == 'S' and inp['sub'] not in sub_ids:
            sub_ids.append(inp['sub'])
    sub_prefix = {}
    taken = set()
    for subid in sub_ids:
        sub = dump['subs'][str(subid)]
        want_states = states_of(sub)
        same_nodes = [(pref, sg) for pref, sg in cluster_by_prefix.items() if pref not in taken and
                      set(sg.nodes) == {'%s%d' % (pref, s_ + base) for s_ in want_states}]
        exact = [(pref, sg) for pref, sg in same_nodes if not inner_problems(sub, pref, sg)]

        def outer_ok(pref):
            for a, i, b in main['tr']:
                if main['inputs'][i]['k'] != 'S' or main['inputs'][i]['sub'] != subid:
                    continue
                na, nb = '_%d' % (a + base), '_%d' % (b + base)
                if not any(x == na and y == '%s%d' % (pref, sub['start'] + base) and at.get('style') == 'dashed'
                           for x, y, at in edges):
                    return False
                for acc_state in sub['acc']:
                    if not any(x == '%s%d' % (pref, acc_state + base) and y == nb and at.get('style') == 'dashed'
                               for x, y, at in edges):
                        return False
            return True
        pool = exact or same_nodes
        best = [pref for pref, sg in pool if outer_ok(pref)]
        if best:
            sub_prefix[subid] = best[0]
        elif pool:
            sub_prefix[subid] = pool[0][0]
        if subid in sub_prefix:
            taken.add(sub_prefix[subid])
            if not exact:
                probs.extend(inner_problems(sub, sub_prefix[subid], cluster_by_prefix[sub_prefix[subid]]))
    for a, i, b in main['tr']:
        inp = main['inputs'][i]
        na, nb = '_%d' % (a + base), '_%d' % (b + base)
        if inp['k'] != 'S':
            at = take(na, nb, lambda at: at.get('style') != 'dashed' and label_ok(inp, at.get('label', '')))
            if at is None:
                probs.append('no edge %s -> %s whose label names %s' % (na, nb, {k: inp.get(k) for k in ('t', 'd', 'c', 'k')}))
            continue
        sub = dump['subs'][str(inp['sub'])]
        pref = sub_prefix.get(inp['sub'])
        if pref is None:
            probs.append('within-word transition %s -> %s: no cluster with the nested automaton\'s states' % (na, nb))
            continue
        entry = '%s%d' % (pref, sub['start'] + base)
        if take(na, entry, lambda at: at.get('style') == 'dashed') is None:
            probs.append('within-word transition %s -> %s: no dashed entry edge %s -> %s' % (na, nb, na, entry))
        for acc_state in sub['acc']:
            ex = '%s%d' % (pref, acc_state + base)
            if take(ex, nb, lambda at: at.get('style') == 'dashed') is None:
                probs.append('no dashed exit edge %s -> %s for the within-word expression leaving state %d' % (ex, nb, a))
    leftovers = [(x, y) for i, (x, y, at) in enumerate(edges) if not used[i]]
    if leftovers:
        probs.append('edges that correspond to no transition: %s' % leftovers[:4])
    return probs


def check_regex_dot(text, regex):
    try:
        g = dotparse.parse(text)
    except dotparse.DotError as e:
        return ['--regex file is not valid DOT: %s' % e]
    probs = []
    labels = [at.get('label', '') for at in g.all_nodes().values()]
    items = list(regex['inputs'])
    for pool in regex['pool']:
        items.extend(pool)
    for it in items:
        if it['k'] == 'L':
            ok = any(it['t'] in l and (it['d'] is None or it['d'] in l) for l in labels)
            what = 'literal %r%s' % (it['t'], '' if it['d'] is None else ' "%s"' % it['d'])
        elif it['k'] == 'C':
            ok = any(it['c'] in l for l in labels)
            what = 'command %r' % it['c']
        elif it['k'] == 'N':
            ok = any(('<%s>' % it['n']) in l for l in labels)
            what = 'nonterminal <%s>' % it['n']
        else:
            continue
        if not ok:
            probs.append('%s is not the label of any node' % what)
    for a, b, _ in g.all_edges():
        pass
    declared = {k for k, v in g.all_nodes().items() if v.get('_explicit')}
    for a, b, _ in g.all_edges():
        for x in (a, b):
            if x not in declared:
                probs.append('edge endpoint %s is never declared as a node' % x)
                break
    return probs


def make_jobs(tier, seed):
    q = tier == 'quick'
    return [('j', seed * 1000003 + i, 10 if q else 25) for i in range(20 if q else 80)]


def run_job(job, acc):
    _, s, n = job
    r = random.Random(s)
    P = probe.Probe()
    wd = bashrun.make_workdir('c16')
    try:
        for i in range(n):
            k = r.random()
            stmts = special_grammar(r) if k < 0.4 else (shared_word_grammar(r) if k < 0.52 else (
                reordered_words_grammar(r) if k < 0.64 else c04.biased_grammar(r)))
            text, _, _ = gast.print_grammar(stmts)
            special = k < 0.4
            for shell in common.SHELLS:
                ans = P.ask('g', shell, 'dfa,regex', text)
                if ans.get('stage') != 'done':
                    acc.count('not_accepted')
                    break
                dfa_p, rx_p = os.path.join(wd, 'd.dot'), os.path.join(wd, 'r.dot')
                for p in (dfa_p, rx_p):
                    if os.path.exists(p):
                        os.unlink(p)
                pr = subprocess.run([paths.COMPLGEN, '--' + shell, os.devnull, '--dfa', dfa_p, '--regex', rx_p, '-'],
                                    input=text.encode(), stdout=subprocess.PIPE, stderr=subprocess.PIPE, timeout=60)
                acc.evals += 1
                base = {'grammar': text, 'shell': shell, 'origin': 'seed=%d #%d' % (s, i), 'stmts': stmts}
                if pr.returncode != 0 or not os.path.exists(dfa_p) or not os.path.exists(rx_p):
                    acc.violation(dict(base, sig='dump-not-written', observed=pr.stderr.decode('utf-8', 'replace')[:300]))
                    continue
                dtext = open(dfa_p, encoding='utf-8', errors='replace', newline='').read()
                rtext = open(rx_p, encoding='utf-8', errors='replace', newline='').read()
                if special or ans['dfa_min']['subs']:
                    acc.seen((text, shell))
                acc.count('nested_automata', len(ans['dfa_min']['subs']))
                p1 = check_dfa_dot(dtext, ans['dfa_min'], BASE[shell])
                if p1:
                    sig = 'dfa-dot:' + ('invalid' if 'not valid DOT' in p1[0] else p1[0].split(':')[0].split(' for ')[0][:40])
                    acc.violation(dict(base, sig=sig, what=p1[0], observed=p1[:5], file=dtext[:1500]))
                    continue
                p2 = check_regex_dot(rtext, ans['regex'])
                if p2:
                    sig = 'regex-dot:' + ('invalid' if 'not valid DOT' in p2[0] else 'item-missing')
                    acc.violation(dict(base, sig=sig, what=p2[0], observed=p2[:5], file=rtext[:1500]))
                    continue
                acc.count('files_parsed', 2)
                acc.sample({'grammar': text[:300], 'shell': shell, 'dfa_nodes': dtext.count('[label='),
                            'regex_nodes': rtext.count('[label=')})
    finally:
        P.close()
        shutil.rmtree(wd, ignore_errors=True)


def replay(w, acc):
    from .c02 import tuplify
    P = probe.Probe()
    wd = bashrun.make_workdir('c16r')
    try:
        text, shell = w['grammar'], w['shell']
        ans = P.ask('g', shell, 'dfa,regex', text)
        dfa_p, rx_p = os.path.join(wd, 'd.dot'), os.path.join(wd, 'r.dot')
        subprocess.run([paths.COMPLGEN, '--' + shell, os.devnull, '--dfa', dfa_p, '--regex', rx_p, '-'],
                       input=text.encode(), stdout=subprocess.PIPE, stderr=subprocess.PIPE)
        acc.evals += 1
        p1 = check_dfa_dot(open(dfa_p, newline='').read(), ans['dfa_min'], BASE[shell])
        p2 = check_regex_dot(open(rx_p, newline='').read(), ans['regex'])
        print('dfa problems', p1[:5])
        print('regex problems', p2[:5])
        if p1 or p2:
            acc.violation({'sig': w['sig'], 'observed': (p1 + p2)[:5]})
    finally:
        P.close()
        shutil.rmtree(wd, ignore_errors=True)
