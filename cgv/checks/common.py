"""Helpers shared by the checks."""
import random

from .. import gast, gen, refsem, automata as A

SHELLS = ('bash', 'fish', 'zsh', 'pwsh')

EXH_LEAVES = [gast.lit('a'), gast.lit('b'), gast.lit('a', 'd'), gast.nt('U'), gast.nt('D'),
              gast.cmd('echo c')]
EXH_DEF = gast.defn('D', None, gast.alt(gast.lit('x'), gast.cmd('echo k')))


def exhaustive_grammars(n, shard, nshards):
    """All expression trees with <= n nodes over EXH_LEAVES, as one-call grammars with the
    definition of <D>; deterministic sharding."""
    i = 0
    for e in gen.enum_trees_upto(n, EXH_LEAVES):
        if i % nshards == shard:
            yield [gast.call('cmd', e), EXH_DEF]
        i += 1


def compare_with_reference(stmts, shell, dump, which):
    """Exact labelled language equivalence of a dumped automaton with the reference
    automaton.  Returns None or a witness dict."""
    ref = refsem.reference_canon(stmts, shell)
    own = refsem.grammar_command_texts(stmts)
    unknown = [t for t in refsem.dump_command_texts(dump) if t not in own]
    names = sorted(refsem.builtin_names_used(ref))
    maps = [None]
    if unknown or names:
        maps = []
        if len(unknown) == len(names) and len(names) <= 2:
            import itertools
            for perm in itertools.permutations(names):
                maps.append(dict(zip(unknown, perm)))
        if not maps:
            maps = [{}]
    last = None
    for m in maps:
        dc = refsem.dump_canon(dump, m)
        if dc == ref:
            return None
        last = dc
    w = A.distinguish(A.dfa_from_canon(ref), A.dfa_from_canon(last))
    seq, ref_accepts = w if w else ([], None)
    return {'which': which, 'witness': [refsem.sym_str(s) for s in seq],
            'accepted_by': 'reference only' if ref_accepts else 'complgen only',
            'ref_states': ref[0], 'impl_states': last[0]}


def permuted_pairs_grammar(r, npairs=None):
    """Many pairs of within-word expressions over the same items in a different order and with the same
    skeleton: `(u)@(h) x | (h)@(u) y`.  Each pair is a chance for two nested automata to be confused."""
    n = npairs or r.randint(8, 40)
    branches = []
    for i in range(n):
        u, h = gast.lit('u%d' % i), gast.lit('h%d' % i)
        sep = gast.lit(r.choice(['@', ':', '=']))
        kind = r.random()
        if kind < 0.5:
            a = ('word', (u, sep, h))
            b = ('word', (h, sep, u))
        elif kind < 0.8:
            a = ('word', (gast.alt(u, gast.lit('p%d' % i)), sep, h))
            b = ('word', (gast.alt(h, gast.lit('p%d' % i)), sep, u)) if r.random() < 0.5 else ('word', (h, sep, gast.alt(u, gast.lit('p%d' % i))))
        else:
            # nested juxtaposition of two literals would be rejected (parse-time flattening), so the optional part
            # is separator + alternation
            a = ('word', (u, gast.opt(('word', (sep, gast.alt(h, gast.lit('q%d' % i)))))))
            b = ('word', (h, gast.opt(('word', (sep, gast.alt(u, gast.lit('q%d' % i)))))))
        branches.append(gast.seq(a, gast.lit('x%d' % i)))
        branches.append(gast.seq(b, gast.lit('y%d' % i)))
    r.shuffle(branches)
    return [gast.call('cmd', gast.alt(*branches))]


def loopy_grammar(r, inword=None):
    """Small alphabets under nested repetition, option and alternation: many states that differ only in how far
    a loop has been unrolled, the shape on which a partition-refinement bug shows (found with
    `cmd ([[a]] a (a b b|a a a))...;`).  With inword the same shapes are put inside one word (nested automaton)."""
    alpha = r.choice(['ab', 'abc', 'abc', 'abcd'])
    if inword is None:
        inword = r.random() < 0.25

    def e(d):
        k = r.random()
        if d == 0 or k < 0.22:
            return gast.lit(r.choice(alpha))
        if k < 0.50:
            return gast.seq(*[e(d - 1) for _ in range(r.randint(2, 4))])
        if k < 0.65:
            return gast.alt(*[e(d - 1) for _ in range(r.randint(2, 3))])
        if k < 0.82:
            return gast.many(e(d - 1))
        return gast.opt(e(d - 1))

    def atom():
        k = r.random()
        x, y = r.sample(alpha, 2)
        if k < 0.4:
            return gast.alt(gast.lit(x), gast.lit(y))
        if k < 0.6:
            return gast.many(gast.lit(x))
        if k < 0.8:
            return gast.opt(gast.lit(x))
        return gast.lit(x)

    def w(d):
        k = r.random()
        if d == 0 or k < 0.2:
            return atom()
        if k < 0.6:
            parts = []
            for _ in range(r.randint(2, 4)):
                p = w(d - 1)
                if parts and parts[-1][0] == 'lit' and p[0] == 'lit':
                    p = gast.opt(p)
                parts.append(p)
            return ('word', tuple(parts))
        if k < 0.72:
            return gast.alt(w(d - 1), w(d - 1))
        if k < 0.88:
            return gast.many(w(d - 1))
        return gast.opt(w(d - 1))
    if inword:
        body = ('word', (gast.lit(r.choice(['k=', '-', 'x:'])), w(r.randint(1, 3))))
        tail = gast.seq(body, gast.lit('end')) if r.random() < 0.5 else body
        return [gast.call('cmd', tail)]
    return [gast.call('cmd', e(r.randint(2, 4)))]


NAME_POOL = ['FORMAT', 'COMMAND', 'MODE', 'REMOTE', 'OPTION', 'TARGET', 'SOURCE', 'LEVEL', 'KIND', 'ACTION', 'FILTER',
             'COLOR', 'WHEN', 'USER', 'HOST', 'PORT', 'BRANCH', 'TAG', 'REF', 'SPEC', 'ARGS', 'FLAGS', 'SUB', 'OPT',
             'name', 'value', 'key', 'item', 'unit', 'zone', 'A', 'B', 'C', 'D', 'E', 'F', 'X1', 'X2', 'Y', 'Z',
             'INSTALL', 'REMOVE', 'UPDATE', 'QUERY', 'pkg-name', 'sub-cmd', 'my_arg', 'LONG-NAME-HERE', 'n0', 'n1']


def dag_grammar(r):
    """Definitions that depend on each other as a random DAG with shared children (a definition referenced from
    several others, siblings with dependencies of their own), names drawn from a large pool so that their order in
    hash tables varies: what the resolution order of definitions has to get right."""
    n = r.randint(4, 9)
    names = r.sample(NAME_POOL, n)
    stmts = []
    for i, nm in enumerate(names):
        later = names[i + 1:]
        parts = [gast.lit('w%d' % i)]
        if later:
            for ref in r.sample(later, min(len(later), r.choice([1, 1, 2, 3]))):
                parts.append(gast.nt(ref))
                if r.random() < 0.4:
                    parts.append(gast.lit('s%d%s' % (i, ref[:1].lower())))
        k = r.random()
        if len(parts) == 1:
            body = gast.alt(gast.lit('v%d' % i), gast.lit('u%d' % i))
        elif k < 0.6:
            body = gast.seq(*parts)
        elif k < 0.8:
            body = gast.alt(*parts)
        else:
            body = gast.seq(parts[0], gast.opt(gast.seq(*parts[1:])))
        stmts.append(gast.defn(nm, None, body))
    roots = [names[0]] + r.sample(names[1:], min(len(names) - 1, r.randint(0, 2)))
    e = gast.alt(*[gast.nt(x) for x in roots])
    if r.random() < 0.3:
        e = gast.seq(gast.lit('go'), e)
    stmts.append(gast.call('cmd', e))
    r.shuffle(stmts)
    return stmts


def described_groups_grammar(r):
    """Group descriptions `( ... ) "d"` over sequences, alternatives, options and repetitions whose literals are
    partly described already, nested in each other: which literal ends up with which description."""
    n = [0]

    def atom():
        k = r.random()
        n[0] += 1
        if k < 0.45:
            return gast.lit('l%d' % n[0])
        if k < 0.7:
            return gast.lit('l%d' % n[0], r.choice(['own one', 'own two', 'x']))
        if k < 0.8:
            return gast.nt('U%d' % (n[0] % 3))
        if k < 0.9:
            return gast.cmd('echo c%d' % (n[0] % 3))
        return ('word', (gast.lit('k%d=' % n[0]), gast.alt(gast.lit('v'), gast.lit('w', r.choice([None, 'own w'])))))

    def e(d):
        k = r.random()
        if d == 0 or k < 0.2:
            return atom()
        if k < 0.45:
            return gast.seq(*[e(d - 1) for _ in range(r.randint(2, 3))])
        if k < 0.6:
            return gast.alt(*[e(d - 1) for _ in range(r.randint(2, 3))])
        if k < 0.67:
            return gast.fb(e(d - 1), e(d - 1))
        if k < 0.74:
            return gast.opt(e(d - 1))
        if k < 0.8:
            return gast.many(e(d - 1))
        return describe(e(d - 1), r.choice(['group one', 'group two', 'g']))

    def describe(x, d):
        if x[0] == 'lit':
            return gast.lit(x[1], d) if x[2] is None else x
        if x[0] == 'desc':
            return x
        return gast.desc(x, d)
    body = e(r.randint(2, 4))
    if r.random() < 0.6:
        body = describe(body, 'outer group')
    stmts = [gast.call('cmd', body)]
    if r.random() < 0.3:
        stmts.append(gast.defn('U0', None, gast.desc(gast.seq(gast.lit('d1', r.choice([None, 'own d'])), gast.lit('d2')), 'in definition')))
    return stmts
