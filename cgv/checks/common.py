"""Helpers shared by the checks."""
import random

from .. import gast, gen, refsem, automata as A

SHELLS = ('bash', 'fish', 'zsh', 'pwsh')

EXH_LEAVES = [gast.lit('a'), gast.lit('b'), gast.lit('a', 'd'), gast.nt('U'), gast.nt('D'),
              gast.cmd('echo c')]
EXH_DEF = gast.defn('D', None, gast.alt(gast.lit('x'), gast.cmd('echo k')))


def exhaustive_grammars(n, shard, nshards):
    """All expression trees with <= n nodes over EXH_LEAVES, as one-call grammars with the
    definition of <D>; deterministic sharding."""
    i = 0
    for e in gen.enum_trees_upto(n, EXH_LEAVES):
        if i % nshards == shard:
            yield [gast.call('cmd', e), EXH_DEF]
        i += 1


def compare_with_reference(stmts, shell, dump, which):
    """Exact labelled language equivalence of a dumped automaton with the reference
    automaton.  Returns None or a witness dict."""
    ref = refsem.reference_canon(stmts, shell)
    own = refsem.grammar_command_texts(stmts)
    unknown = [t for t in refsem.dump_command_texts(dump) if t not in own]
    names = sorted(refsem.builtin_names_used(ref))
    maps = [None]
    if unknown or names:
        maps = []
        if len(unknown) == len(names) and len(names) <= 2:
            import itertools
            for perm in itertools.permutations(names):
                maps.append(dict(zip(unknown, perm)))
        if not maps:
            maps = [{}]
    last = None
    for m in maps:
        dc = refsem.dump_canon(dump, m)
        if dc == ref:
            return None
        last = dc
    w = A.distinguish(A.dfa_from_canon(ref), A.dfa_from_canon(last))
    seq, ref_accepts = w if w else ([], None)
    return {'which': which, 'witness': [refsem.sym_str(s) for s in seq],
            'accepted_by': 'reference only' if ref_accepts else 'complgen only',
            'ref_states': ref[0], 'impl_states': last[0]}
