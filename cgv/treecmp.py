"""Normal forms for comparing a parsed arena with a generator AST (C05)."""


def parsed_tree(arena, idx):
    n = arena[idx]
    k = n['k']
    if k == 'T':
        return ('lit', n['t'], n['d'])
    if k == 'N':
        return ('nt', n['n'])
    if k == 'C':
        return ('cmd', n['c'])
    if k == 'Seq':
        return ('seq', tuple(parsed_tree(arena, c) for c in n['ch']))
    if k == 'Alt':
        return ('alt', tuple(parsed_tree(arena, c) for c in n['ch']))
    if k == 'Fb':
        return ('fb', tuple(parsed_tree(arena, c) for c in n['ch']))
    if k == 'Opt':
        return ('opt', parsed_tree(arena, n['c']))
    if k == 'Many':
        return ('many', parsed_tree(arena, n['c']))
    if k == 'DD':
        return ('desc', parsed_tree(arena, n['c']), n['d'])
    if k == 'Sub':
        inner = parsed_tree(arena, n['c'])
        if inner[0] == 'seq':
            return ('word', inner[1])
        return ('word', (inner,))
    raise ValueError(k)


def parsed_statements(parse):
    out = []
    for st in parse['stmts']:
        if st['k'] == 'call':
            out.append(('call', st['name'], parsed_tree(parse['arena'], st['e'])))
        else:
            sh = st['shell'][0] if st['shell'] is not None else None
            out.append(('def', st['name'], sh, parsed_tree(parse['arena'], st['e'])))
    return out


def expected_tree(e, in_word=False):
    """What the documented syntax says the printed AST parses to.  Inside a word,
    juxtaposition and a parenthesised space-separated sequence are the same node."""
    k = e[0]
    if k in ('lit', 'nt', 'cmd'):
        return e
    if k == 'word':
        items = tuple(expected_tree(c, True) for c in e[1])
        return ('seq', items) if in_word else ('word', items)
    if k == 'seq':
        return ('seq', tuple(expected_tree(c, in_word) for c in e[1]))
    if k in ('alt', 'fb'):
        return (k, tuple(expected_tree(c, in_word) for c in e[1]))
    if k in ('opt', 'many'):
        return (k, expected_tree(e[1], in_word))
    if k == 'desc':
        return ('desc', expected_tree(e[1], in_word), e[2])
    raise ValueError(k)


def expected_statements(stmts):
    out = []
    for st in stmts:
        if st[0] == 'call':
            out.append(('call', st[1], expected_tree(st[2])))
        else:
            out.append(('def', st[1], st[2], expected_tree(st[3])))
    return out


def first_difference(a, b, path='root'):
    if type(a) != type(b):
        return '%s: %r vs %r' % (path, a, b)
    if isinstance(a, tuple):
        if len(a) != len(b):
            return '%s: arity %d vs %d: %r vs %r' % (path, len(a), len(b), a, b)
        for i, (x, y) in enumerate(zip(a, b)):
            d = first_difference(x, y, '%s/%s' % (path, a[0] if i and isinstance(a[0], str) else i))
            if d:
                return d
        return None
    if a != b:
        return '%s: %r vs %r' % (path, a, b)
    return None
