"""A DOT (Graphviz) lexer and recursive-descent parser written from the published grammar
(https://graphviz.org/doc/info/lang.html) and the quoted-string rules of Graphviz's scanner:
inside "...", \\" is a quote and \\\\ is kept as a pair, everything else is literal; the string
ends at the first unescaped quote.  `dot` itself is not installed in this sandbox."""
import re


class DotError(Exception):
    pass


ID_RE = re.compile(r'[A-Za-z_\x80-￿][A-Za-z_0-9\x80-￿]*')
NUM_RE = re.compile(r'-?(\.[0-9]+|[0-9]+(\.[0-9]*)?)')


def lex(s):
    toks = []
    i = 0
    n = len(s)
    line = 1
    while i < n:
        c = s[i]
        if c == '\n':
            line += 1
            i += 1
            continue
        if c in ' \t\r\f':
            i += 1
            continue
        if s.startswith('//', i):
            j = s.find('\n', i)
            i = n if j < 0 else j
            continue
        if s.startswith('/*', i):
            j = s.find('*/', i + 2)
            if j < 0:
                raise DotError('line %d: unterminated comment' % line)
            line += s.count('\n', i, j)
            i = j + 2
            continue
        if c == '#' and (i == 0 or s[i - 1] == '\n'):
            j = s.find('\n', i)
            i = n if j < 0 else j
            continue
        if c == '"':
            j = i + 1
            raw = []
            while True:
                if j >= n:
                    raise DotError('line %d: unterminated string starting %r' % (line, s[i:i + 40]))
                d = s[j]
                if d == '\\' and j + 1 < n and s[j + 1] == '"':
                    raw.append('\\"')
                    j += 2
                    continue
                if d == '\\' and j + 1 < n and s[j + 1] == '\\':
                    raw.append('\\\\')
                    j += 2
                    continue
                if d == '\\' and j + 1 < n and s[j + 1] == '\n':
                    j += 2
                    line += 1
                    continue
                if d == '"':
                    break
                if d == '\n':
                    line += 1
                raw.append(d)
                j += 1
            toks.append(('str', ''.join(raw), line))
            i = j + 1
            # string concatenation with +
            continue
        if c == '<':
            depth = 0
            j = i
            while j < n:
                if s[j] == '<':
                    depth += 1
                elif s[j] == '>':
                    depth -= 1
                    if depth == 0:
                        break
                j += 1
            if j >= n:
                raise DotError('line %d: unterminated HTML string' % line)
            toks.append(('html', s[i + 1:j], line))
            i = j + 1
            continue
        if s.startswith('->', i) or s.startswith('--', i):
            toks.append(('op', s[i:i + 2], line))
            i += 2
            continue
        if c in '{}[]=;,:+':
            toks.append(('p', c, line))
            i += 1
            continue
        m = NUM_RE.match(s, i)
        if m and (c.isdigit() or c in '-.'):
            toks.append(('id', m.group(0), line))
            i = m.end()
            continue
        m = ID_RE.match(s, i)
        if m:
            toks.append(('id', m.group(0), line))
            i = m.end()
            continue
        raise DotError('line %d: unexpected character %r in %r' % (line, c, s[max(0, i - 20):i + 20]))
    return toks


def unescape_label(raw):
    """escString semantics for the characters the checks care about."""
    out = []
    i = 0
    while i < len(raw):
        c = raw[i]
        if c == '\\' and i + 1 < len(raw):
            e = raw[i + 1]
            if e == '"':
                out.append('"')
            elif e == '\\':
                out.append('\\')
            elif e in 'nlr':
                out.append('\n')
            else:
                out.append(e)
            i += 2
            continue
        out.append(c)
        i += 1
    return ''.join(out)


class Graph:
    def __init__(self, name=None, parent=None):
        self.name = name
        self.parent = parent
        self.nodes = {}        # id -> attrs (first declaration wins for shape bookkeeping)
        self.node_order = []
        self.edges = []        # (from, to, attrs)
        self.subgraphs = []
        self.attrs = {}
        self.decl_count = {}

    def all_nodes(self):
        out = dict(self.nodes)
        for sg in self.subgraphs:
            for k, v in sg.all_nodes().items():
                out.setdefault(k, v)
        return out

    def all_edges(self):
        out = list(self.edges)
        for sg in self.subgraphs:
            out.extend(sg.all_edges())
        return out


class Parser:
    def __init__(self, toks):
        self.t = toks
        self.i = 0

    def peek(self, k=0):
        return self.t[self.i + k] if self.i + k < len(self.t) else ('eof', '', -1)

    def next(self):
        tok = self.peek()
        self.i += 1
        return tok

    def expect(self, kind, val=None):
        tok = self.next()
        if tok[0] != kind or (val is not None and tok[1] != val):
            raise DotError('line %s: expected %s %r, found %r' % (tok[2], kind, val, tok[:2]))
        return tok

    def is_id(self, tok):
        return tok[0] in ('id', 'str', 'html')

    def parse(self):
        tok = self.peek()
        if tok[0] == 'id' and tok[1].lower() == 'strict':
            self.next()
        tok = self.next()
        if tok[0] != 'id' or tok[1].lower() not in ('graph', 'digraph'):
            raise DotError('line %s: expected graph or digraph' % tok[2])
        directed = tok[1].lower() == 'digraph'
        name = None
        if self.is_id(self.peek()):
            name = self.next()[1]
        g = Graph(name)
        g.directed = directed
        self.expect('p', '{')
        self.stmt_list(g, {'node': {}, 'edge': {}, 'graph': {}})
        self.expect('p', '}')
        if self.peek()[0] != 'eof':
            raise DotError('line %s: text after the closing brace: %r' % (self.peek()[2], self.peek()[:2]))
        return g

    def stmt_list(self, g, defaults):
        while True:
            tok = self.peek()
            if tok == ('p', '}', tok[2]) or tok[0] == 'eof':
                return
            self.stmt(g, defaults)
            if self.peek()[:2] == ('p', ';'):
                self.next()

    def attr_list(self):
        attrs = {}
        while self.peek()[:2] == ('p', '['):
            self.next()
            while self.peek()[:2] != ('p', ']'):
                k = self.next()
                if not self.is_id(k):
                    raise DotError('line %s: attribute name expected, found %r' % (k[2], k[:2]))
                self.expect('p', '=')
                v = self.next()
                if not self.is_id(v):
                    raise DotError('line %s: attribute value expected, found %r' % (v[2], v[:2]))
                attrs[k[1]] = v[1] if v[0] != 'str' else unescape_label(v[1])
                attrs['_raw_' + k[1]] = v[1]
                if self.peek()[:2] in (('p', ';'), ('p', ',')):
                    self.next()
            self.expect('p', ']')
        return attrs

    def node_id(self):
        tok = self.next()
        if not self.is_id(tok):
            raise DotError('line %s: node id expected, found %r' % (tok[2], tok[:2]))
        nid = tok[1]
        while self.peek()[:2] == ('p', ':'):
            self.next()
            p = self.next()
            if not self.is_id(p):
                raise DotError('line %s: port expected' % p[2])
        return nid

    def subgraph(self, g, defaults):
        name = None
        if self.peek()[0] == 'id' and self.peek()[1].lower() == 'subgraph':
            self.next()
            if self.is_id(self.peek()):
                name = self.next()[1]
        self.expect('p', '{')
        sg = Graph(name, g)
        g.subgraphs.append(sg)
        self.stmt_list(sg, {k: dict(v) for k, v in defaults.items()})
        self.expect('p', '}')
        return sg

    def stmt(self, g, defaults):
        tok = self.peek()
        if tok[0] == 'id' and tok[1].lower() in ('graph', 'node', 'edge') and self.peek(1)[:2] == ('p', '['):
            self.next()
            defaults[tok[1].lower()].update(self.attr_list())
            return
        if (tok[0] == 'id' and tok[1].lower() == 'subgraph') or tok[:2] == ('p', '{'):
            left = self.subgraph(g, defaults)
            lefts = list(left.all_nodes())
        else:
            if not self.is_id(tok):
                raise DotError('line %s: statement expected, found %r' % (tok[2], tok[:2]))
            if self.peek(1)[:2] == ('p', '='):
                k = self.next()
                self.next()
                v = self.next()
                if not self.is_id(v):
                    raise DotError('line %s: value expected' % v[2])
                g.attrs[k[1]] = v[1] if v[0] != 'str' else unescape_label(v[1])
                return
            nid = self.node_id()
            lefts = [nid]
            left = None
        if self.peek()[0] == 'op':
            chain = [lefts]
            while self.peek()[0] == 'op':
                op = self.next()
                if (op[1] == '->') != getattr(self.root(g), 'directed', True):
                    raise DotError('line %s: edge operator %s does not match the graph kind' % (op[2], op[1]))
                t2 = self.peek()
                if (t2[0] == 'id' and t2[1].lower() == 'subgraph') or t2[:2] == ('p', '{'):
                    sg = self.subgraph(g, defaults)
                    chain.append(list(sg.all_nodes()))
                else:
                    chain.append([self.node_id()])
            attrs = dict(defaults['edge'])
            attrs.update(self.attr_list())
            for a, b in zip(chain, chain[1:]):
                for x in a:
                    for y in b:
                        g.edges.append((x, y, attrs))
                        for z in (x, y):
                            self.declare(g, z, dict(defaults['node']), implicit=True)
            return
        if left is None:
            attrs = dict(defaults['node'])
            attrs.update(self.attr_list())
            self.declare(g, lefts[0], attrs, implicit=False)

    def root(self, g):
        while g.parent is not None:
            g = g.parent
        return g

    def declare(self, g, nid, attrs, implicit):
        root = self.root(g)
        known = root.all_nodes()
        if nid in known:
            if not implicit:
                # later declarations update attributes
                owner = self.find_owner(root, nid)
                owner.nodes[nid].update(attrs)
                owner.nodes[nid]['_explicit'] = True
                owner.decl_count[nid] = owner.decl_count.get(nid, 0) + 1
            return
        attrs = dict(attrs)
        attrs['_explicit'] = not implicit
        g.nodes[nid] = attrs
        g.node_order.append(nid)
        g.decl_count[nid] = 0 if implicit else 1

    def find_owner(self, g, nid):
        if nid in g.nodes:
            return g
        for sg in g.subgraphs:
            o = self.find_owner(sg, nid)
            if o is not None:
                return o
        return None


def parse(text):
    return Parser(lex(text)).parse()
