"""Run emitted bash completion scripts inside a real bash and observe them.

Observation channels:
  * COMPREPLY and the return code of _<cmd> per query (stdout, NUL framed)
  * with dump=True: every local variable of _<cmd>, _<cmd>_subword_<N> and
    _<cmd>_subword_shape_<K> as bash itself holds it when the function returns
    (RETURN trap + `local -p`), NUL framed on fd 3
  * stderr of the whole session, with per-query markers
The only stub is the 3-line _get_comp_words_by_ref the property C01 allows.
"""
import os
import shutil
import subprocess
import tempfile

from . import paths

STUB = ('_get_comp_words_by_ref () { while [[ $1 == -n ]]; do shift 2; done; '
        'words=("${COMP_WORDS[@]}"); cword=$COMP_CWORD; }\n')

DUMP_FN = r'''
__cgv_dump () {
    local __fn=$1 __decls=$2 __line __flags __rest __name
    printf 'F\0%s\0' "$__fn" >&3
    while IFS= read -r __line; do
        [[ $__line == declare\ * ]] || continue
        __rest=${__line#declare }
        __flags=${__rest%% *}
        __rest=${__rest#* }
        __name=${__rest%%=*}
        [[ $__name =~ ^[A-Za-z_][A-Za-z0-9_]*$ ]] || continue
        [[ $__name == __* ]] && continue
        if [[ $__flags == *[aA]* ]]; then
            declare -n __r=$__name
            printf 'A\0%s\0' "$__name" >&3
            local __k
            for __k in "${!__r[@]}"; do printf '%s\0%s\0' "$__k" "${__r[$__k]}" >&3; done
            printf '\1\0' >&3
            unset -n __r
        else
            printf 'S\0%s\0%s\0' "$__name" "${!__name}" >&3
        fi
    done <<< "$__decls"
    printf 'E\0' >&3
}
'''


def bash_quote(s):
    """Exact bash quoting of an arbitrary string without NUL: $'...'."""
    out = ["$'"]
    for ch in s:
        o = ord(ch)
        if ch == "'":
            out.append("\\'")
        elif ch == '\\':
            out.append('\\\\')
        elif ch == '\n':
            out.append('\\n')
        elif ch == '\t':
            out.append('\\t')
        elif ch == '\r':
            out.append('\\r')
        elif o < 0x20 or o == 0x7f:
            out.append('\\x%02x' % o)
        else:
            out.append(ch)
    out.append("'")
    return ''.join(out)


class BashError(Exception):
    pass


def default_wordbreaks():
    p = subprocess.run(['bash', '--noprofile', '--norc', '-c', 'printf %s "$COMP_WORDBREAKS"'],
                       stdout=subprocess.PIPE, stderr=subprocess.DEVNULL)
    return p.stdout.decode()


_WB = None


def wordbreaks():
    global _WB
    if _WB is None:
        _WB = default_wordbreaks()
    return _WB


def make_workdir(tag='run'):
    os.makedirs(paths.WORK, exist_ok=True)
    return tempfile.mkdtemp(prefix='%s-%d-' % (tag, os.getpid()), dir=paths.WORK)


def parse_dump(data):
    """-> list of (function name, {var: str | {key: value}}) in the order functions returned."""
    parts = data.split(b'\0')
    out = []
    i = 0
    n = len(parts)
    cur = None
    while i < n:
        tag = parts[i]
        if tag == b'F':
            cur = (parts[i + 1].decode('utf-8', 'replace'), {})
            i += 2
        elif tag == b'S':
            cur[1][parts[i + 1].decode()] = parts[i + 2].decode('utf-8', 'replace')
            i += 3
        elif tag == b'A':
            name = parts[i + 1].decode()
            d = {}
            i += 2
            while parts[i] != b'\x01':
                d[parts[i].decode('utf-8', 'replace')] = parts[i + 1].decode('utf-8', 'replace')
                i += 2
            i += 1
            cur[1][name] = d
        elif tag == b'E':
            out.append(cur)
            cur = None
            i += 1
        elif tag == b'Q':
            out.append(('__query__', {'index': int(parts[i + 1])}))
            i += 2
        else:
            i += 1
    return out


def run_session(script_text, cmdname, queries, dump=False, setup='', cwd=None, timeout=None,
                env=None, keep=False, direct_calls=None, pre_query=None):
    """queries: list of dicts {'words': [...], 'cword': int, 'wb': str|None}; words[0] is the
    command name.  direct_calls: optional list of raw bash lines run (with dump on) before
    the queries, e.g. calling _<cmd>_subword_3 directly.

    Returns {'results': [{'rc', 'reply'} | None], 'stderr': str, 'dumps': [...], 'status': int,
             'timed_out': bool, 'source_rc': int}"""
    wd = make_workdir('bash')
    try:
        spath = os.path.join(wd, 'script.bash')
        with open(spath, 'w', encoding='utf-8', newline='') as f:
            f.write(script_text)
        dpath = os.path.join(wd, 'driver.bash')
        dfile = os.path.join(wd, 'dump.bin')
        lines = [STUB]
        if dump:
            lines.append('exec 3>%s\n' % bash_quote(dfile))
            lines.append(DUMP_FN)
        lines.append(setup)
        lines.append('source %s\nprintf \'\\001S%%d\\002\\003\\n\' $?\n' % bash_quote(spath))
        fn = '_' + cmdname
        if dump:
            lines.append('set -o functrace\n')
            lines.append("trap 'case ${FUNCNAME[0]} in %s|%s_subword_*) __cgv_dump \"${FUNCNAME[0]}\" \"$(local -p)\";; esac' RETURN\n"
                         % (fn, fn))
        for raw in (direct_calls or []):
            lines.append(raw + '\n')
        for i, q in enumerate(queries):
            wb = q.get('wb')
            pre = ''
            if wb is not None:
                pre = 'COMP_WORDBREAKS=%s; ' % bash_quote(wb)
            words = ' '.join(bash_quote(w) for w in q['words'])
            if pre_query:
                pre += pre_query.replace('{i}', str(i)) + '; '
            if dump:
                pre += "printf 'Q\\0%%s\\0' %d >&3; " % i
            lines.append(
                "%sprintf '\\001q%d\\n' >&2; COMP_WORDS=(%s); COMP_CWORD=%d; COMP_LINE=%s; COMP_POINT=${#COMP_LINE}; COMPREPLY=(); "
                "%s; __rc=$?; printf '\\001Q%d\\002%%d\\002' $__rc; "
                "((${#COMPREPLY[@]})) && printf '%%s\\0' \"${COMPREPLY[@]}\"; printf '\\003\\n'\n"
                % (pre, i, words, q['cword'], bash_quote(' '.join(q['words'])), bash_quote(fn) if not _plain(fn) else fn, i))
        with open(dpath, 'w', encoding='utf-8', newline='') as f:
            f.write(''.join(lines))
        e = {'PATH': os.environ.get('PATH', '/usr/bin:/bin'), 'HOME': wd, 'LC_ALL': 'C.UTF-8', 'TERM': 'dumb'}
        if env:
            e.update(env)
        cmd = ['bash', '--noprofile', '--norc', dpath]
        if timeout is None:
            timeout = 60 + 0.6 * len(queries)
        p = subprocess.Popen(cmd, stdin=subprocess.DEVNULL, stdout=subprocess.PIPE, stderr=subprocess.PIPE,
                             cwd=cwd or wd, env=e, start_new_session=True)
        timed_out = False
        try:
            out, err = p.communicate(timeout=timeout)
        except subprocess.TimeoutExpired:
            timed_out = True
            try:
                os.killpg(p.pid, 9)
            except OSError:
                p.kill()
            out, err = p.communicate()
        results = [None] * len(queries)
        source_rc = None
        for rec in out.split(b'\x03\n'):
            k = rec.find(b'\x01')
            if k < 0:
                continue
            rec = rec[k + 1:]
            if rec.startswith(b'S'):
                source_rc = int(rec[1:].split(b'\x02')[0])
                continue
            if not rec.startswith(b'Q'):
                continue
            f = rec[1:].split(b'\x02', 2)
            idx = int(f[0])
            rc = int(f[1])
            body = f[2] if len(f) > 2 else b''
            reply = [x.decode('utf-8', 'replace') for x in body.split(b'\0')[:-1]] if body else []
            results[idx] = {'rc': rc, 'reply': reply}
        dumps = []
        if dump and os.path.exists(dfile):
            with open(dfile, 'rb') as df:
                dumps = parse_dump(df.read())
        return {'results': results, 'stderr': err.decode('utf-8', 'replace'), 'dumps': dumps,
                'status': p.returncode, 'timed_out': timed_out, 'source_rc': source_rc,
                'workdir': wd if keep else None}
    finally:
        if not keep:
            shutil.rmtree(wd, ignore_errors=True)


def _plain(s):
    return all(c.isalnum() or c in '_-.' for c in s)


def stderr_by_query(stderr):
    """Split session stderr at the per-query markers -> {index: text}; -1 = before the first."""
    out = {}
    cur = -1
    buf = []
    for line in stderr.split('\n'):
        if line.startswith('\x01q'):
            out[cur] = '\n'.join(buf)
            buf = []
            try:
                cur = int(line[2:])
            except ValueError:
                pass
        else:
            buf.append(line)
    out[cur] = '\n'.join(buf)
    return out


def bash_syntax_ok(script_text):
    wd = make_workdir('bashn')
    try:
        sp = os.path.join(wd, 's.bash')
        with open(sp, 'w', encoding='utf-8', newline='') as f:
            f.write(script_text)
        p = subprocess.run(['bash', '--noprofile', '--norc', '-n', sp], stdout=subprocess.PIPE,
                           stderr=subprocess.PIPE, timeout=60)
        return p.returncode == 0, p.stderr.decode('utf-8', 'replace')
    finally:
        shutil.rmtree(wd, ignore_errors=True)
