"""Reference semantics of .usage grammars, written from README.md / ARCHITECTURE.md and
the property statements, not from complgen's check.rs / regex.rs / dfa.rs.

Pipeline here:  choose definitions for the target shell -> attach descriptions ->
expand nonterminals -> label `||` levels -> Thompson NFA -> subset construction ->
Moore minimisation -> canonical numbering.

Symbols (the labelled alphabet):
    ('L', text, descr|None, level)         literal
    ('C', text, level)                     external command, output on stdout
    ('A', text, level)                     external command using zsh compadd
    ('B', name, compadd:bool, level)       built-in PATH / DIRECTORY completion
    ('S', canon_of_nested_automaton, level) within-word expression
    ('*',)                                 any word (undefined nonterminal, <_>)
Nested automata use the same symbols except 'S'.
"""
from . import automata as A
from .gast import walk

SHELLS = ('bash', 'fish', 'zsh', 'pwsh')
BUILTINS = ('PATH', 'DIRECTORY')


class SemError(Exception):
    pass


def split_statements(stmts):
    calls = [s for s in stmts if s[0] == 'call']
    defs = [s for s in stmts if s[0] == 'def']
    return calls, defs


def definition_table(stmts, shell):
    """name -> ('cmd', text, compadd) | ('expr', e) according to the C11 rule.
    Names absent from the table are built-in (PATH/DIRECTORY) or any-word."""
    calls, defs = split_statements(stmts)
    table = {}
    plain = {}
    spec = {}
    for d in defs:
        _, name, sh, e = d
        if sh is None:
            plain[name] = e
        elif sh == shell:
            spec[name] = e
    for name, e in plain.items():
        table[name] = ('expr', e)
    for name, e in spec.items():
        if e[0] != 'cmd':
            raise SemError('non-command specialization')
        table[name] = ('cmd', e[1], shell == 'zsh')
    return table


def distribute(e, d):
    """Attach description d to the expression e (documented rule: the first literal of
    every alternative gets it, once).  Returns (e', spent)."""
    k = e[0]
    if k == 'lit':
        if d is not None and e[2] is None:
            return ('lit', e[1], d), True
        return e, False
    if k in ('nt', 'cmd'):
        return e, False
    if k == 'desc':
        inner, _ = distribute(e[1], e[2])
        return inner, False
    if k == 'alt':
        out = []
        for c in e[1]:
            c2, _ = distribute(c, d)
            out.append(c2)
        return ('alt', tuple(out)), False
    if k in ('seq', 'word', 'fb'):
        out = []
        spent = False
        for c in e[1]:
            c2, s = distribute(c, None if spent else d)
            spent = spent or s
            out.append(c2)
        return (k, tuple(out)), spent
    if k in ('opt', 'many'):
        c2, s = distribute(e[1], d)
        return (k, c2), s
    raise ValueError(k)


def expand(e, table, shell, stack=(), used=None):
    """Replace nonterminal references by what they stand for."""
    k = e[0]
    if k == 'nt':
        name = e[1]
        if used is not None:
            used.add(name)
        ent = table.get(name)
        if ent is None:
            if name in BUILTINS:
                return ('builtin', name, shell == 'zsh')
            return ('star',)
        if ent[0] == 'cmd':
            return ('xcmd', ent[1], ent[2])
        if name in stack:
            raise SemError('cycle')
        body, _ = distribute(ent[1], None)
        return expand(body, table, shell, stack + (name,), used)
    if k == 'cmd':
        return ('xcmd', e[1], False)
    if k == 'lit':
        return e
    if k in ('seq', 'alt', 'fb', 'word'):
        return (k, tuple(expand(c, table, shell, stack, used) for c in e[1]))
    if k in ('opt', 'many'):
        return (k, expand(e[1], table, shell, stack, used))
    if k == 'desc':
        raise SemError('desc must be distributed before expansion')
    raise ValueError(k)


def expanded_grammar(stmts, shell, used=None):
    """Single expression for all call variants, fully expanded and described."""
    calls, defs = split_statements(stmts)
    if not calls:
        raise SemError('no call variants')
    table = definition_table(stmts, shell)
    exprs = []
    for c in calls:
        e, _ = distribute(c[2], None)
        exprs.append(expand(e, table, shell, (), used))
    return exprs[0] if len(exprs) == 1 else ('alt', tuple(exprs))


# ---------------------------------------------------------------------------
# NFA construction (Thompson style)

class Builder:
    def __init__(self, propagate_cmd_levels=True):
        self.n = A.NFA()
        self.propagate_cmd_levels = propagate_cmd_levels

    def frag(self, e, level, in_word):
        n = self.n
        k = e[0]
        if k == 'lit':
            a, b = n.new(), n.new()
            n.add(a, ('L', e[1], e[2], level), b)
            return a, b
        if k == 'xcmd':
            a, b = n.new(), n.new()
            n.add(a, ('A' if e[2] else 'C', e[1], level), b)
            return a, b
        if k == 'builtin':
            a, b = n.new(), n.new()
            n.add(a, ('B', e[1], e[2], level), b)
            return a, b
        if k == 'star':
            a, b = n.new(), n.new()
            n.add(a, ('*',), b)
            return a, b
        if k == 'word' and not in_word:
            sub = nested_canon(e, level)
            a, b = n.new(), n.new()
            n.add(a, ('S', sub, level), b)
            return a, b
        if k in ('seq', 'word'):
            first = last = None
            for c in e[1]:
                a, b = self.frag(c, level, in_word)
                if first is None:
                    first = a
                else:
                    n.add(last, None, a)
                last = b
            return first, last
        if k == 'alt':
            s, t = n.new(), n.new()
            for c in e[1]:
                a, b = self.frag(c, level, in_word)
                n.add(s, None, a)
                n.add(b, None, t)
            return s, t
        if k == 'fb':
            s, t = n.new(), n.new()
            for i, c in enumerate(e[1]):
                a, b = self.frag(c, i, in_word)
                n.add(s, None, a)
                n.add(b, None, t)
            return s, t
        if k == 'opt':
            a, b = self.frag(e[1], level, in_word)
            s, t = n.new(), n.new()
            n.add(s, None, a)
            n.add(b, None, t)
            n.add(s, None, t)
            return s, t
        if k == 'many':
            a, b = self.frag(e[1], level, in_word)
            s, t = n.new(), n.new()
            n.add(s, None, a)
            n.add(b, None, t)
            n.add(b, None, a)
            return s, t
        raise ValueError(k)


def build_dfa(e, level=0, in_word=False):
    b = Builder()
    s, t = b.frag(e, level, in_word)
    b.n.start = s
    b.n.acc = {t}
    return A.minimize(A.determinize(b.n))


_nested_cache = {}


def nested_canon(e, level):
    key = (e, level)
    if key not in _nested_cache:
        if len(_nested_cache) > 200000:
            _nested_cache.clear()
        _nested_cache[key] = A.canon(build_dfa(e, level, True))
    return _nested_cache[key]


def reference_dfa(stmts, shell):
    """Minimal DFA of the grammar's labelled language for the target shell."""
    e = expanded_grammar(stmts, shell)
    return build_dfa(e)


def reference_canon(stmts, shell):
    return A.canon(reference_dfa(stmts, shell))


# ---------------------------------------------------------------------------
# Conversion of a cgprobe automaton dump into the same alphabet

def inp_symbol(inp, subs_canon, builtin_map=None):
    k = inp['k']
    if k == 'L':
        return ('L', inp['t'], inp['d'], inp['fb'])
    if k == 'C' or k == 'A':
        if builtin_map is not None and inp['c'] in builtin_map:
            return ('B', builtin_map[inp['c']], k == 'A', inp['fb'])
        return (k, inp['c'], inp['fb'])
    if k == '*':
        return ('*',)
    if k == 'S':
        return ('S', subs_canon[inp['sub']], inp['fb'])
    raise ValueError(k)


def dump_edges(flat, subs_canon, builtin_map=None):
    syms = [None] * len(flat['inputs'])
    edges = []
    for a, i, b in flat['tr']:
        if syms[i] is None:
            syms[i] = inp_symbol(flat['inputs'][i], subs_canon, builtin_map)
        edges.append((a, syms[i], b))
    return edges


def dump_canon(dump, builtin_map=None):
    """Canonical minimal form of the language of a dumped automaton (main + nested).
    The dump is read as an NFA: two interned inputs may denote one symbol."""
    subs_canon = {}
    for sid, flat in dump['subs'].items():
        edges = dump_edges(flat, {}, builtin_map)
        n = A.nfa_from_edges(flat['start'], flat['acc'], edges)
        subs_canon[int(sid)] = A.canon_min(A.determinize(n))
    edges = dump_edges(dump['main'], subs_canon, builtin_map)
    n = A.nfa_from_edges(dump['main']['start'], dump['main']['acc'], edges)
    return A.canon_min(A.determinize(n))


def dump_command_texts(dump):
    out = []
    for flat in [dump['main']] + list(dump['subs'].values()):
        for inp in flat['inputs']:
            if inp['k'] in ('C', 'A') and inp['c'] not in out:
                out.append(inp['c'])
    return out


def grammar_command_texts(stmts):
    out = set()
    for st in stmts:
        e = st[2] if st[0] == 'call' else st[3]
        for x in walk(e):
            if x[0] == 'cmd':
                out.add(x[1])
    return out


def builtin_names_used(canon_form, acc=None):
    acc = set() if acc is None else acc
    for a, sym, b in canon_form[2]:
        if sym[0] == 'B':
            acc.add(sym[1])
        elif sym[0] == 'S':
            builtin_names_used(sym[1], acc)
    return acc


def sym_str(sym):
    k = sym[0]
    if k == 'L':
        d = '' if sym[2] is None else ' "%s"' % sym[2]
        return '%s%s@%d' % (sym[1], d, sym[3])
    if k in 'CA':
        return '{{{%s}}}%s@%d' % (sym[1], 'compadd' if k == 'A' else '', sym[2])
    if k == 'B':
        return '<%s builtin%s>@%d' % (sym[1], ' compadd' if sym[2] else '', sym[3])
    if k == '*':
        return '<*>'
    if k == 'S':
        return 'word[%d states]@%d' % (sym[1][0], sym[2])
    return repr(sym)
