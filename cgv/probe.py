"""Client for the cgprobe binary (library-level observation point)."""
import json
import os
import subprocess

from . import paths


class ProbeCrash(Exception):
    def __init__(self, req_id, returncode, stderr):
        super().__init__('cgprobe died on %s (rc=%s)' % (req_id, returncode))
        self.req_id = req_id
        self.returncode = returncode
        self.stderr = stderr


class Probe:
    def __init__(self, binary=None):
        self.binary = binary or paths.PROBE
        self.p = None
        self.crashes = []

    def start(self):
        self.p = subprocess.Popen([self.binary], stdin=subprocess.PIPE, stdout=subprocess.PIPE,
                                  stderr=subprocess.PIPE)

    def close(self):
        if self.p is not None:
            try:
                self.p.stdin.close()
            except Exception:
                pass
            try:
                self.p.wait(timeout=10)
            except Exception:
                self.p.kill()
            for f in (self.p.stdout, self.p.stderr):
                try:
                    f.close()
                except Exception:
                    pass
            self.p = None

    def ask(self, rid, shell, wants, text):
        """One request, one answer.  On a crash (stack overflow, abort) returns
        {'id': rid, 'stage': 'crash', 'rc': ...} and restarts the probe lazily."""
        if self.p is None or self.p.poll() is not None:
            self.close()
            self.start()
        data = text.encode('utf-8') if isinstance(text, str) else text
        hdr = ('%s %s %s %d\n' % (rid, shell, wants, len(data))).encode()
        try:
            self.p.stdin.write(hdr + data)
            self.p.stdin.flush()
            line = self.p.stdout.readline()
        except (BrokenPipeError, OSError):
            line = b''
        if not line:
            rc = None
            try:
                rc = self.p.wait(timeout=20)
            except Exception:
                self.p.kill()
            err = b''
            try:
                err = self.p.stderr.read()[-2000:]
            except Exception:
                pass
            self.close()
            self.crashes.append(rid)
            return {'id': rid, 'stage': 'crash', 'rc': rc, 'stderr': err.decode('utf-8', 'replace')}
        return json.loads(line)
