"""Small automata toolkit used by the oracles.

An NFA is (nstates, start, accepting:set, trans: dict state -> list[(sym|None, to)])
with None = epsilon.  Symbols are hashable and must have a total order via skey().
A DFA is {'start': s, 'acc': set, 'delta': {state: {sym: to}}, 'n': nstates}.
Everything here is written independently of complgen's dfa.rs (Thompson + subset
construction + Moore refinement instead of followpos + Hopcroft).
"""
from collections import deque


def skey(sym):
    return repr(sym)


class NFA:
    def __init__(self):
        self.trans = []
        self.start = None
        self.acc = set()

    def new(self):
        self.trans.append([])
        return len(self.trans) - 1

    def add(self, a, sym, b):
        self.trans[a].append((sym, b))


def eclose(nfa, states):
    seen = set(states)
    stack = list(states)
    while stack:
        s = stack.pop()
        for sym, t in nfa.trans[s]:
            if sym is None and t not in seen:
                seen.add(t)
                stack.append(t)
    return frozenset(seen)


def determinize(nfa):
    start = eclose(nfa, [nfa.start])
    ids = {start: 0}
    order = [start]
    delta = {}
    q = deque([start])
    while q:
        S = q.popleft()
        sid = ids[S]
        moves = {}
        for s in S:
            for sym, t in nfa.trans[s]:
                if sym is not None:
                    moves.setdefault(sym, set()).add(t)
        row = {}
        for sym in sorted(moves, key=skey):
            T = eclose(nfa, moves[sym])
            if T not in ids:
                ids[T] = len(order)
                order.append(T)
                q.append(T)
            row[sym] = ids[T]
        delta[sid] = row
    acc = {ids[S] for S in order if S & nfa.acc}
    return {'start': 0, 'acc': acc, 'delta': delta, 'n': len(order)}


def trim(dfa):
    """Keep states reachable from start and co-reachable to an accepting state."""
    delta = dfa['delta']
    reach = {dfa['start']}
    st = [dfa['start']]
    while st:
        s = st.pop()
        for t in delta.get(s, {}).values():
            if t not in reach:
                reach.add(t)
                st.append(t)
    rev = {}
    for s, row in delta.items():
        for t in row.values():
            rev.setdefault(t, set()).add(s)
    co = set(a for a in dfa['acc'] if a in reach)
    st = list(co)
    while st:
        s = st.pop()
        for p in rev.get(s, ()):
            if p not in co:
                co.add(p)
                st.append(p)
    keep = reach & co
    keep.add(dfa['start'])
    nd = {}
    for s in keep:
        nd[s] = {sym: t for sym, t in delta.get(s, {}).items() if t in keep}
    return {'start': dfa['start'], 'acc': dfa['acc'] & keep, 'delta': nd, 'n': len(keep)}


def moore(dfa):
    """Moore partition refinement on a (partial) DFA, completed with an implicit sink.
    Returns block id per state (dict)."""
    delta = dfa['delta']
    states = sorted(delta.keys() | {t for r in delta.values() for t in r.values()} | {dfa['start']})
    block = {s: (1 if s in dfa['acc'] else 0) for s in states}
    while True:
        sig = {}
        for s in states:
            row = delta.get(s, {})
            sig[s] = (block[s], tuple(sorted(((skey(sym), block[t]) for sym, t in row.items()))))
        ids = {}
        nb = {}
        for s in states:
            nb[s] = ids.setdefault(sig[s], len(ids))
        if len(ids) == len(set(block.values())):
            return nb
        block = nb


def minimize(dfa):
    d = trim(dfa)
    block = moore(d)
    delta = {}
    for s, row in d['delta'].items():
        b = block[s]
        delta.setdefault(b, {})
        for sym, t in row.items():
            delta[b][sym] = block[t]
    acc = {block[s] for s in d['acc']}
    start = block[d['start']]
    delta.setdefault(start, {})
    return {'start': start, 'acc': acc, 'delta': delta, 'n': len(set(block.values()))}


def canon(dfa):
    """Canonical form of a trim minimal DFA: BFS numbering in sorted symbol order.
    Returns a hashable tuple (n, acc tuple, transitions tuple)."""
    delta = dfa['delta']
    num = {dfa['start']: 0}
    q = deque([dfa['start']])
    trans = []
    while q:
        s = q.popleft()
        row = delta.get(s, {})
        for sym in sorted(row, key=skey):
            t = row[sym]
            if t not in num:
                num[t] = len(num)
                q.append(t)
            trans.append((num[s], sym, num[t]))
    acc = tuple(sorted(num[a] for a in dfa['acc'] if a in num))
    return (len(num), acc, tuple(trans))


def canon_min(dfa):
    return canon(minimize(dfa))


def dfa_from_canon(c):
    n, acc, trans = c
    delta = {i: {} for i in range(n)}
    for a, sym, b in trans:
        delta[a][sym] = b
    return {'start': 0, 'acc': set(acc), 'delta': delta, 'n': n}


def distinguish(d1, d2, limit=200000):
    """Shortest symbol sequence accepted by exactly one of two DFAs (partial DFAs,
    missing transition = reject).  Returns None if equivalent, else
    (sequence, accepted_by_first: bool)."""
    DEAD = -1
    start = (d1['start'], d2['start'])
    seen = {start: None}
    q = deque([start])
    n = 0
    while q:
        a, b = q.popleft()
        aa = a != DEAD and a in d1['acc']
        bb = b != DEAD and b in d2['acc']
        if aa != bb:
            seq = []
            cur = (a, b)
            while seen[cur] is not None:
                prev, sym = seen[cur]
                seq.append(sym)
                cur = prev
            seq.reverse()
            return seq, aa
        ra = d1['delta'].get(a, {}) if a != DEAD else {}
        rb = d2['delta'].get(b, {}) if b != DEAD else {}
        for sym in sorted(set(ra) | set(rb), key=skey):
            nxt = (ra.get(sym, DEAD), rb.get(sym, DEAD))
            if nxt == (DEAD, DEAD):
                continue
            if nxt not in seen:
                seen[nxt] = ((a, b), sym)
                q.append(nxt)
        n += 1
        if n > limit:
            raise RuntimeError('product too large')
    return None


def nfa_from_edges(start, acc, edges):
    """edges: iterable of (from, sym, to) over arbitrary hashable state names."""
    n = NFA()
    ids = {}

    def sid(x):
        if x not in ids:
            ids[x] = n.new()
        return ids[x]
    n.start = sid(start)
    for a, sym, b in edges:
        n.add(sid(a), sym, sid(b))
    n.acc = {sid(a) for a in acc}
    return n


def is_deterministic_edges(edges):
    seen = {}
    for a, sym, b in edges:
        if (a, sym) in seen and seen[(a, sym)] != b:
            return False
        seen[(a, sym)] = b
    return True
