"""Run the real complgen binary."""
import os
import subprocess

from . import paths


def compile_text(text, shell, binary=None, extra=None, timeout=60, env=None, cwd=None):
    """complgen --<shell> - -  with the grammar on stdin.  Returns (rc, stdout, stderr)."""
    b = binary or paths.COMPLGEN
    data = text.encode('utf-8') if isinstance(text, str) else text
    args = [b, '--' + shell, '-'] + (extra or []) + ['-']
    try:
        p = subprocess.run(args, input=data, stdout=subprocess.PIPE, stderr=subprocess.PIPE,
                           timeout=timeout, env=env, cwd=cwd)
    except subprocess.TimeoutExpired:
        return None, b'', b'timeout'
    return p.returncode, p.stdout, p.stderr
