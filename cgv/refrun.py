"""Reference interpreter for bash completion: what the grammar prescribes for a command
line (C01 / C09 / C12 / C17 oracles).  Works on the reference automaton of refsem.

The interpreter can also be run with named *deviations* switched on; they describe
known, recorded divergences of the emitted bash script from the grammar's meaning and
are used only to give violations a precise signature (never to excuse new ones).
"""
from . import automata as A
from . import refsem

DEV_STALE = 'stale-state-after-command-reject'      # bash.rs `break 3`
DEV_BOUNDARY = 'within-word-item-boundary-accepted'  # _subword: end of word in a non-accepting state


class Machine:
    def __init__(self, stmts, outputs, shell='bash', wb_default=None):
        """outputs: command text -> list of output lines (raw, may contain a tab + description)."""
        self.dfa = refsem.reference_dfa(stmts, shell)
        self.outputs = outputs
        self.nested = {}

    # ---- helpers
    def cands(self, cmdtext):
        """Candidates of a command: text before the first tab of every non-empty line."""
        out = []
        for line in self.outputs.get(cmdtext, []):
            c = line.split('\t', 1)[0]
            if c != '' and c not in out:
                out.append(c)
        return out

    def nested_dfa(self, canon):
        if canon not in self.nested:
            self.nested[canon] = A.dfa_from_canon(canon)
        return self.nested[canon]

    def row(self, q):
        return self.dfa['delta'].get(q, {})

    # ---- within-word
    def nested_lits(self, N):
        out = set()
        for r in N['delta'].values():
            for sym in r:
                if sym[0] == 'L':
                    out.add(sym[1])
        return out

    def nested_walk(self, N, text):
        """Consume complete items of `text` along the nested automaton as far as they go.
        Returns (state, consumed_chars, status) with status in
        'end' (all consumed), 'star' (an any-text item takes the rest), 'stuck'."""
        s = N['start']
        i = 0
        all_lits = self.nested_lits(N)
        while True:
            if i >= len(text):
                return s, i, 'end'
            r = text[i:]
            row = N['delta'].get(s, {})
            nxt = None
            has_lit = any(sym[0] == 'L' for sym in row)
            if has_lit:
                for sym, t in row.items():
                    if sym[0] == 'L' and r.startswith(sym[1]):
                        if nxt is None or len(sym[1]) > nxt[1]:
                            nxt = (t, len(sym[1]))
                if nxt is None and any(l.startswith(r) for l in all_lits):
                    return s, i, 'stuck'
            if nxt is None:
                stop = False
                for sym, t in row.items():
                    if sym[0] in 'CA':
                        for c in sorted(self.cands(sym[1]), key=lambda c: (-len(c), c)):
                            if r == c or r.startswith(c):
                                nxt = (t, len(c))
                                break
                            if c.startswith(r):
                                stop = True
                                break
                        if nxt or stop:
                            break
                if nxt is None and stop:
                    return s, i, 'stuck'
            if nxt is None:
                if any(sym[0] == '*' for sym in row):
                    return s, i, 'star'
                return s, i, 'stuck'
            s, i = nxt[0], i + nxt[1]

    def nested_accepts(self, canon, word, dev=()):
        N = self.nested_dfa(canon)
        s, i, st = self.nested_walk(N, word)
        if st == 'star':
            return True, False
        if st == 'end':
            if s in N['acc']:
                return True, False
            if DEV_BOUNDARY in dev:
                return True, True
        return False, False

    def nested_complete(self, canon, prefix):
        """Candidates a within-word expression offers for the typed prefix."""
        N = self.nested_dfa(canon)
        s, i, st = self.nested_walk(N, prefix)
        m, r = prefix[:i], prefix[i:]
        row = N['delta'].get(s, {})
        levels = sorted({sym[-1] for sym in row if sym[0] != '*'})
        for lv in levels:
            out = set()
            for sym in row:
                if sym[0] == 'L' and sym[3] == lv and sym[1].startswith(r):
                    out.add(m + sym[1])
                elif sym[0] in 'CA' and sym[2] == lv:
                    for c in self.cands(sym[1]):
                        if c.startswith(r):
                            out.add(m + c)
            if out:
                return out
        return set()

    # ---- top level
    def match_word(self, q, w, dev=()):
        """-> (next_state | None, kind, info).  Priority literal > within-word > command > any."""
        row = self.row(q)
        hits = [(sym, t) for sym, t in row.items() if sym[0] == 'L' and sym[1] == w]
        if hits:
            return hits[0][1], 'literal', {'ambiguous': len({t for _, t in hits}) > 1}
        hits = []
        devused = False
        for sym, t in row.items():
            if sym[0] == 'S':
                ok, du = self.nested_accepts(sym[1], w, dev)
                if ok:
                    hits.append((sym, t))
                    devused = devused or du
        if hits:
            return hits[0][1], 'word', {'ambiguous': len({t for _, t in hits}) > 1, 'dev': devused}
        hits = [(sym, t) for sym, t in row.items() if sym[0] in 'CA' and w in self.cands(sym[1])]
        if hits:
            return hits[0][1], 'command', {'ambiguous': len({t for _, t in hits}) > 1}
        for sym, t in row.items():
            if sym[0] == '*':
                return t, 'any', {}
        return None, None, {}

    def candidates(self, q, prefix):
        row = self.row(q)
        levels = sorted({sym[-1] for sym in row if sym[0] != '*'})
        for lv in levels:
            out = set()
            for sym in row:
                if sym[0] == 'L' and sym[3] == lv and sym[1].startswith(prefix):
                    out.add(sym[1])
                elif sym[0] in 'CA' and sym[2] == lv:
                    for c in self.cands(sym[1]):
                        if c.startswith(prefix):
                            out.add(c)
                elif sym[0] == 'S' and sym[2] == lv:
                    out |= self.nested_complete(sym[1], prefix)
            if out:
                return out, lv
        return set(), None

    def run(self, words, dev=()):
        """words: complete words before the cursor + the cursor word (last).  Returns a dict:
        matched (bool), state, expected (set of candidates, unstripped), trace, devs_used."""
        q = self.dfa['start']
        trace = [q]
        used = []
        n = len(words) - 1
        for idx, w in enumerate(words[:-1]):
            t, kind, info = self.match_word(q, w, dev)
            if kind == 'word' and info.get('dev'):
                used.append(DEV_BOUNDARY)
            if DEV_STALE in dev and idx == n - 1 and kind not in ('literal', 'word'):
                # bash.rs: when the last complete word is not among the candidates of a command
                # expected here (and that command printed something), the script leaves the word
                # walk before trying other commands or any-word, and completes from the state it
                # was in.
                row = self.row(q)
                if any(sym[0] in 'CA' and self.cands(sym[1]) and w not in self.cands(sym[1]) for sym in row):
                    used.append(DEV_STALE)
                    break
            if t is None:
                return {'matched': False, 'state': q, 'expected': set(), 'trace': trace,
                        'failed_at': idx, 'devs_used': used, 'level': None}
            q = t
            trace.append(q)
        exp, lv = self.candidates(q, words[-1])
        return {'matched': True, 'state': q, 'expected': exp, 'trace': trace, 'devs_used': used,
                'level': lv}

    # ---- excluded regions of C01 (they belong to C09 / C12)
    def exclusions(self):
        """Reasons why this grammar is outside C01's quantifier, [] if none."""
        reasons = []
        for q, row in self.dfa['delta'].items():
            texts = {}
            for sym in row:
                if sym[0] == 'L':
                    texts.setdefault(sym[1], set()).add(sym)
            if any(len(v) > 1 for v in texts.values()):
                reasons.append('same literal with two labels at one point')
            ss = [sym for sym in row if sym[0] == 'S']
            firsts = []
            for sym in ss:
                N = self.nested_dfa(sym[1])
                f = set()
                for s2 in N['delta'].get(N['start'], {}):
                    f.add(s2[:2] if s2[0] == 'L' else s2[0])
                firsts.append(f)
            for i in range(len(firsts)):
                for j in range(i + 1, len(firsts)):
                    a, b = firsts[i], firsts[j]
                    if a & b or any(x in ('C', 'A', '*') for x in a | b):
                        reasons.append('two within-word expressions may accept a common word')
            cmds = [sym for sym in row if sym[0] in 'CA']
            if len({sym[1] for sym in cmds}) < len(cmds):
                reasons.append('same command with two labels at one point')
            seen = set()
            for sym in cmds:
                for c in self.cands(sym[1]):
                    if c in seen:
                        reasons.append('two commands offer the same candidate at one point')
                    seen.add(c)
        for canon in self.all_nested():
            N = self.nested_dfa(canon)
            toks = set(self.nested_lits(N))
            ntok = len(toks)
            for r in N['delta'].values():
                for sym in r:
                    if sym[0] in 'CA':
                        for c in self.cands(sym[1]):
                            toks.add(c)
                            ntok += 1
            ts = sorted(toks)
            if any(ts[i + 1].startswith(ts[i]) for i in range(len(ts) - 1)):
                reasons.append('within-word items not prefix-free')
            for q, row in N['delta'].items():
                texts = {}
                for sym in row:
                    if sym[0] == 'L':
                        texts.setdefault(sym[1], set()).add(sym)
                if any(len(v) > 1 for v in texts.values()):
                    reasons.append('same literal with two labels inside a word')
        return sorted(set(reasons))

    def all_nested(self):
        out = set()
        for row in self.dfa['delta'].values():
            for sym in row:
                if sym[0] == 'S':
                    out.add(sym[1])
        return out


def strip_wordbreaks(cands, prefix, wb):
    """bash's own stripping: candidates lose the typed prefix up to its last word-break char."""
    cut = -1
    for ch in wb:
        k = prefix.rfind(ch)
        if k > cut:
            cut = k
    if cut < 0:
        return set(cands)
    head = prefix[:cut + 1]
    return {c[len(head):] if c.startswith(head) else c for c in cands}
