"""Grammar generators: exhaustive small trees and seeded random grammars that are
clean by construction (accepted by complgen per the C08 statement)."""
import itertools
import random

from .gast import (lit, nt, cmd, seq, alt, fb, opt, many, word, desc, call, defn,
                   walk, children)

SHELLS = ('bash', 'fish', 'zsh', 'pwsh')

TOP_LITS = ['a', 'b', 'c', 'foo', 'bar', 'baz', 'qux', '--help', '--verbose', '-v', '-x',
            'add', 'rm', 'list', 'show', 'x', 'y', 'z', 'sub', 'get', 'set', '--all']
WORD_PREFIXES = ['--color=', '--opt=', '-e', 'key=', '--level=', 'pre:', '-D', '--with-', 'k:']
WORD_VALUES = ['always', 'never', 'auto', 'on', 'off', 'x1', 'y2', 'z3', 'red', 'green', 'blue',
               'v', 'w', 'q9', 'none', 'full']
WORD_SEPS = [',', ':', '+', '/']
DESCRS = ['first', 'second one', 'do it', 'the thing', 'X', 'help text', 'more', 'nothing here']
# set by checks that do not compare byte columns with character columns (C04)
NON_ASCII_BODIES = False
CMD_BODIES = ['echo c1', 'echo c2; echo c3', 'printf "%s\\n" p1 p2', 'echo q1',
              # bodies must reach every script verbatim: quotes, backslashes, $, backticks, comments, several lines
              'echo "$1" | sed \'s/x/\\\\/\'', 'line1 "a  b"\n\tline2 `x` $HOME', 'printf "%s\\n" \'it\'"\'"\'s\' # c',
              'echo ${1}-${2:-none}', 'test -n "$1" && echo yes || echo no']
NT_NAMES = ['A', 'B', 'C', 'D', 'E', 'F', 'G', 'H', 'OPT', 'VAL', 'SUB', 'ARG']
UNDEF_NAMES = ['U', 'FILE', 'NAME', '_', 'NUM']


def prefix_free(strings):
    ss = sorted(set(strings))
    for i in range(len(ss) - 1):
        if ss[i + 1].startswith(ss[i]):
            return False
    return True


class Gen:
    """Random clean grammar generator.

    Options (all optional):
      depth        max expression depth
      ndefs        (lo, hi) number of plain definitions
      fallbacks    probability weight of ||
      words        allow within-word expressions
      cmds         allow {{{ }}} commands
      descs        allow descriptions
      stars        allow undefined nonterminals
      specs        allow shell-specific definitions
      builtins     allow PATH / DIRECTORY
      cmd_factory  callable(rng, index) -> command text (C17 uses probes)
      word_prefix_free  keep each word expression's literal set prefix-free
    """

    def __init__(self, rng, **o):
        self.r = rng
        self.depth = o.get('depth', 4)
        self.ndefs = o.get('ndefs', (0, 4))
        self.p_fb = o.get('fallbacks', 0.12)
        self.words = o.get('words', True)
        self.cmds = o.get('cmds', True)
        self.descs = o.get('descs', True)
        self.stars = o.get('stars', True)
        self.specs = o.get('specs', False)
        self.builtins = o.get('builtins', False)
        self.cmd_factory = o.get('cmd_factory')
        self.cmdname = o.get('cmdname', 'cmd')
        self.ncalls = o.get('ncalls', (1, 2))
        self.desc_groups = o.get('desc_groups', True)
        self.top_lits = o.get('top_lits', TOP_LITS)
        self.max_width = o.get('max_width', 4)
        self.p_word = o.get('p_word', 0.15)
        self.descr_of = {}
        self.ncmd = 0
        self.defs = {}          # name -> expr (plain)
        self.def_word_safe = {}  # name -> usable in word context
        self.spec_defs = []
        self.undefined_used = set()

    # ---- leaves
    def descr_for(self, text):
        if text not in self.descr_of:
            if self.descs and self.r.random() < 0.3:
                self.descr_of[text] = self.r.choice(DESCRS)
            else:
                self.descr_of[text] = None
        return self.descr_of[text]

    def top_lit(self):
        t = self.r.choice(self.top_lits)
        return lit(t, self.descr_for(t))

    def new_cmd(self, in_word=False):
        i = self.ncmd
        self.ncmd += 1
        if self.cmd_factory:
            return cmd(self.cmd_factory(self.r, i, in_word))
        if NON_ASCII_BODIES and self.r.random() < 0.1:
            return cmd('echo \u00e9 "\u65e5\u672c"')
        return cmd(self.r.choice(CMD_BODIES))

    def leaf(self, in_def_for_word=False):
        x = self.r.random()
        if x < 0.62:
            return self.top_lit()
        if x < 0.72 and self.cmds:
            return self.new_cmd()
        if x < 0.80 and self.stars:
            n = self.r.choice(UNDEF_NAMES)
            self.undefined_used.add(n)
            return nt(n)
        if x < 0.90 and self.defs:
            return nt(self.r.choice(sorted(self.defs)))
        if x < 0.93 and self.builtins:
            return nt(self.r.choice(['PATH', 'DIRECTORY']))
        if x < 0.97 and self.spec_names:
            return nt(self.r.choice(self.spec_names))
        return self.top_lit()

    # ---- within-word expressions
    def word_expr(self):
        """PREFIX followed by a value part; literals of one word are prefix-free and
        never adjacent."""
        r = self.r
        prefix = r.choice(WORD_PREFIXES)
        vals = r.sample(WORD_VALUES, r.randint(1, 4))
        kind = r.random()
        used = [prefix] + vals
        def vlit(v):
            return lit(v, self.descr_for(v) if r.random() < 0.5 else self.descr_of.setdefault(v, None))
        if kind < 0.40:
            tail = alt(*[vlit(v) for v in vals]) if len(vals) > 1 else opt(vlit(vals[0]))
        elif kind < 0.55 and self.cmds:
            tail = self.new_cmd(in_word=True)
        elif kind < 0.70 and self.stars:
            n = r.choice(UNDEF_NAMES)
            self.undefined_used.add(n)
            tail = nt(n)
        elif kind < 0.82:
            # value[,value]...
            sep = r.choice(WORD_SEPS)
            v = alt(*[vlit(x) for x in vals]) if len(vals) > 1 else alt(vlit(vals[0]), vlit('zz'))
            tail = ('word', (v, opt(many(('word', (lit(sep, None), v))))))
            used.append(sep)
        elif kind < 0.92 and self.word_defs():
            tail = nt(r.choice(self.word_defs()))
        elif kind < 0.96:
            inner = fb(alt(*[vlit(v) for v in vals[:2]]) if len(vals) > 1 else vlit(vals[0]),
                       vlit('other'))
            tail = inner
        else:
            # a || branch that is itself a juxtaposition
            j = ('word', (vlit(vals[0]), alt(lit('+1', None), lit('+2', None))))
            tail = fb(j, vlit('other')) if r.random() < 0.5 else fb(vlit('other'), j)
        if tail[0] == 'lit':
            tail = opt(tail)
        pl = lit(prefix, self.descr_for(prefix) if r.random() < 0.3 else self.descr_of.setdefault(prefix, None))
        if tail[0] == 'word':
            return ('word', (pl,) + tail[1])
        return ('word', (pl, tail))

    def word_defs(self):
        return sorted(n for n, ok in self.def_word_safe.items() if ok)

    # ---- general expressions
    def expr(self, depth, top=False):
        r = self.r
        if depth <= 0:
            return self.leaf()
        x = r.random()
        if x < 0.22:
            return self.leaf()
        if x < 0.22 + self.p_word and self.words:
            return self.word_expr()
        if x < 0.55:
            n = r.randint(2, self.max_width)
            return seq(*[self.sub(depth - 1, 'seq') for _ in range(n)])
        if x < 0.78:
            n = r.randint(2, self.max_width)
            return alt(*[self.sub(depth - 1, 'alt') for _ in range(n)])
        if x < 0.78 + self.p_fb:
            n = r.randint(2, 3)
            return fb(*[self.sub(depth - 1, 'fb') for _ in range(n)])
        if x < 0.95:
            return opt(self.expr(depth - 1))
        return many(self.sub(depth - 1, 'many'))

    def sub(self, depth, parent):
        e = self.expr(depth)
        # keep trees canonical for the printer: n-ary operators never directly nest
        # themselves unless parenthesised; that is legal and the printer handles it.
        return e

    def desc_group(self):
        """(l1 ... | l2 ... ) "d" with undescribed leading literals (determinate class)."""
        r = self.r
        d = r.choice(DESCRS)
        cands = [t for t in self.top_lits if self.descr_of.get(t, d) in (None, d)
                 and (t not in self.descr_of or self.descr_of[t] == d)]
        cands = [t for t in self.top_lits if t not in self.descr_of or self.descr_of[t] == d]
        if len(cands) < 2:
            return self.top_lit()
        n = r.randint(1, min(3, len(cands)))
        heads = r.sample(cands, n)
        branches = []
        for h in heads:
            self.descr_of[h] = d
            if r.random() < 0.4:
                branches.append(('seq', (lit(h, None), self.leaf())))
            else:
                branches.append(lit(h, None))
        if len(branches) == 1:
            b = branches[0]
            if b[0] == 'lit':
                return lit(b[1], d)
            return desc(b, d)
        return desc(alt(*branches), d)

    # ---- whole grammar
    def grammar(self):
        r = self.r
        self.spec_names = []
        nd = r.randint(*self.ndefs)
        names = r.sample(NT_NAMES, nd)
        # definitions may only refer to earlier-created ones: no cycles
        for name in names:
            if self.words and r.random() < 0.35:
                # a definition usable inside words: alternatives of literals, a command, or again a
                # within-word expression over earlier word-safe definitions (nesting through definitions)
                vals = r.sample(WORD_VALUES, r.randint(1, 3))
                earlier = self.word_defs()
                k = r.random()
                if self.cmds and k < 0.25:
                    body = self.new_cmd(in_word=True)
                elif earlier and k < 0.6:
                    inner = nt(r.choice(earlier))
                    head = lit(r.choice(['n', 'm.', 'lvl-', 'x']) + str(len(self.defs)), None)
                    if r.random() < 0.5:
                        body = ('word', (head, inner))
                    else:
                        tail = ('word', (lit(vals[0], self.descr_of.setdefault(vals[0], None)),
                                         self.new_cmd(in_word=True))) if self.cmds and r.random() < 0.5 else inner
                        body = alt(lit(vals[-1] + 'q', None), ('word', (head, tail)))
                else:
                    body = alt(*[lit(v, self.descr_of.setdefault(v, None)) for v in vals])
                self.def_word_safe[name] = True
            else:
                body = self.expr(self.r.randint(1, max(1, self.depth - 1)))
                self.def_word_safe[name] = False
            self.defs[name] = body
        chain = []
        if r.random() < 0.25:
            # a chain of definitions, each reachable only through the previous one
            k = r.randint(3, 6)
            chain = ['CH%d' % i for i in range(k)]
            for i in range(k - 1, -1, -1):
                if i == k - 1:
                    body = alt(lit('end%d' % i, None), lit('fin', self.descr_of.setdefault('fin', None)))
                else:
                    nxt = nt(chain[i + 1])
                    body = r.choice([seq(lit('c%d' % i, None), nxt), alt(seq(lit('c%d' % i, None), nxt), lit('s%d' % i, None)),
                                     seq(opt(lit('o%d' % i, None)), nxt)])
                self.defs[chain[i]] = body
                self.def_word_safe[chain[i]] = False
            names = names + chain
        if self.specs:
            for name in r.sample(['S1', 'S2', 'S3'], r.randint(0, 2)):
                self.spec_names.append(name)
        ncalls = r.randint(*self.ncalls)
        calls = []
        for _ in range(ncalls):
            e = self.expr(self.depth, top=True)
            if chain and _ == 0:
                e = r.choice([seq(e, nt(chain[0])), alt(e, nt(chain[0])), seq(nt(chain[0]), e)])
            if self.desc_groups and self.descs and r.random() < 0.3:
                e = seq(e, self.desc_group())
            calls.append(call(self.cmdname, e))
        stmts = list(calls)
        for name in names:
            stmts.append(defn(name, None, self.defs[name]))
        for name in self.spec_names:
            shells = r.sample(SHELLS, r.randint(1, 4))
            if r.random() < 0.5:
                stmts.append(defn(name, None, self.new_cmd()))
            for sh in shells:
                stmts.append(defn(name, sh, self.new_cmd()))
        # shuffle definition order and interleave with call variants (call order kept)
        defs_part = stmts[len(calls):]
        r.shuffle(defs_part)
        out = []
        ci = 0
        for d in defs_part:
            while ci < len(calls) and r.random() < 0.4:
                out.append(calls[ci])
                ci += 1
            out.append(d)
        out.extend(calls[ci:])
        if r.random() < 0.5:
            out = diversify(out, r)
        return out


def fix_nary(stmts):
    """Flatten accidental directly nested n-ary nodes?  No: nested same-operator nodes are
    legal trees (they print with parentheses).  Only degenerate arities are repaired."""
    return stmts


NAME_POOL = ['SUB', 'OPT', 'FIRST', 'SECOND', 'OUTER', 'INNER', 'TARGET', 'HOST', 'Q', 'ZZ', 'MODE', 'LVL', 'WHEN',
             'KIND', 'ITEM', 'NODE', 'KEY', 'VALUE', 'X1', 'X2', 'a', 'b', 'opt', 'sub-cmd', 'my_arg', 'M', 'N', 'R9']


def diversify(stmts, r):
    """Meaning-preserving disorder: definitions get names from a large pool (map order of names must not matter),
    some references go through one or two extra forwarding definitions, and some definitions are referenced once more."""
    from .gast import map_expr
    defined = []
    for st in stmts:
        if st[0] == 'def' and st[1] not in defined:
            defined.append(st[1])
    taken = set()
    for st in stmts:
        e = st[2] if st[0] == 'call' else st[3]
        for x in walk(e):
            if x[0] == 'nt':
                taken.add(x[1])
    taken |= set(defined)
    pool = [n for n in NAME_POOL if n not in taken]
    r.shuffle(pool)
    rename = {}
    for nm in defined:
        if nm in ('PATH', 'DIRECTORY', '_'):
            continue
        if pool and r.random() < 0.6:
            rename[nm] = pool.pop()

    def ren(e):
        if e[0] == 'nt' and e[1] in rename:
            return ('nt', rename[e[1]])
        return e
    out = []
    for st in stmts:
        if st[0] == 'call':
            out.append(('call', st[1], map_expr(ren, st[2])))
        else:
            out.append(('def', rename.get(st[1], st[1]), st[2], map_expr(ren, st[3])))
    # forwarding definitions for some references to plain definitions
    plain = [st[1] for st in out if st[0] == 'def' and st[2] is None]
    fw = {}
    extra = []
    for nm in plain:
        if pool and r.random() < 0.25:
            f1 = pool.pop()
            extra.append(('def', f1, None, ('nt', nm)))
            fw[nm] = f1
            if pool and r.random() < 0.4:
                f2 = pool.pop()
                extra.append(('def', f2, None, ('nt', f1)))
                fw[nm] = f2
    if fw:
        def forward(e):
            if e[0] == 'nt' and e[1] in fw and r.random() < 0.6:
                return ('nt', fw[e[1]])
            return e
        out = [('call', st[1], map_expr(forward, st[2])) if st[0] == 'call' else st for st in out]
        for d in extra:
            out.insert(r.randint(0, len(out)), d)
    return out


def used_names(stmts):
    out = set()
    for st in stmts:
        e = st[2] if st[0] == 'call' else st[3]
        for x in walk(e):
            if x[0] == 'nt':
                out.add(x[1])
    return out


# ---------------------------------------------------------------------------
# Exhaustive enumeration of small expression trees

def enum_trees(n, leaves, unary=('opt', 'many'), binary=('seq', 'alt', 'fb', 'word')):
    """All expression trees with exactly n nodes (binary operators only, right nested
    n-ary shapes arise from nesting)."""
    if n == 1:
        for l in leaves:
            yield l
        return
    for u in unary:
        for c in enum_trees(n - 1, leaves, unary, binary):
            yield (u, c)
    for b in binary:
        for k in range(1, n - 1):
            for left in enum_trees(k, leaves, unary, binary):
                for right in enum_trees(n - 1 - k, leaves, unary, binary):
                    yield (b, (left, right))


def enum_trees_upto(n, leaves, **kw):
    for k in range(1, n + 1):
        yield from enum_trees(k, leaves, **kw)
