"""Grammar AST used by the generators, the reference semantics and the printer.

Nodes are plain tuples so they hash and compare structurally:
    ('lit', text, descr|None)
    ('nt', name)
    ('cmd', text)
    ('seq', (items...))        space separated, len >= 2
    ('alt', (items...))        |, len >= 2
    ('fb', (items...))         ||, len >= 2
    ('opt', x)                 [x]
    ('many', x)                x...
    ('word', (items...))       within-word juxtaposition, len >= 2
    ('desc', x, descr)         x "descr"  (x is not a lit)
Statements:
    ('call', cmdname, expr)
    ('def', name, shell|None, expr)
"""

REGULAR_PUNCT = "!#$%&'*+,-/:=?@^_`~"
ESCAPABLE = '()[]<>|;"{}\\.'


def lit(t, d=None):
    return ('lit', t, d)


def nt(n):
    return ('nt', n)


def cmd(c):
    return ('cmd', c)


def seq(*xs):
    xs = tuple(xs)
    return xs[0] if len(xs) == 1 else ('seq', xs)


def alt(*xs):
    xs = tuple(xs)
    return xs[0] if len(xs) == 1 else ('alt', xs)


def fb(*xs):
    xs = tuple(xs)
    return xs[0] if len(xs) == 1 else ('fb', xs)


def opt(x):
    return ('opt', x)


def many(x):
    return ('many', x)


def word(*xs):
    xs = tuple(xs)
    return xs[0] if len(xs) == 1 else ('word', xs)


def desc(x, d):
    return ('desc', x, d)


def call(name, e):
    return ('call', name, e)


def defn(name, shell, e):
    return ('def', name, shell, e)


def children(e):
    k = e[0]
    if k in ('seq', 'alt', 'fb', 'word'):
        return e[1]
    if k in ('opt', 'many'):
        return (e[1],)
    if k == 'desc':
        return (e[1],)
    return ()


def walk(e):
    yield e
    for c in children(e):
        yield from walk(c)


def size(e):
    return sum(1 for _ in walk(e))


def map_expr(f, e):
    """Bottom-up rewrite."""
    k = e[0]
    if k in ('seq', 'alt', 'fb', 'word'):
        e = (k, tuple(map_expr(f, c) for c in e[1]))
    elif k in ('opt', 'many'):
        e = (k, map_expr(f, e[1]))
    elif k == 'desc':
        e = (k, map_expr(f, e[1]), e[2])
    return f(e)


# ---------------------------------------------------------------------------
# Printer.  Emits tokens with positions so that planted-location oracles know
# where everything is.  Precedence: fb(0) < alt(1) < seq(2) < word(3) < many(4) < atom(5).

PREC = {'fb': 0, 'alt': 1, 'seq': 2, 'word': 3, 'many': 4,
        'lit': 5, 'nt': 5, 'cmd': 5, 'opt': 5, 'desc': 2.5}


def enc_lit(text, next_is_dot=False, rng=None):
    """Spell a literal.  Dots are written raw in runs of at most two unless that
    would be ambiguous; with rng some regular choices are randomised."""
    out = []
    n = len(text)
    i = 0
    while i < n:
        c = text[i]
        if c == '.':
            j = i
            while j < n and text[j] == '.':
                j += 1
            run = j - i
            at_end = (j == n)
            k = 0
            raw_run = 0
            while k < run:
                remaining = run - k
                # may we write this dot raw?  a raw run must stay < 3 and must not
                # be followed by a raw dot making it 3; at the end of the literal a
                # raw dot must not touch a following '...'
                want_raw = raw_run < 2 and (rng is None or rng.random() < 0.7)
                if want_raw and at_end and next_is_dot:
                    want_raw = False
                if want_raw:
                    out.append('.')
                    raw_run += 1
                else:
                    out.append('\\.')
                    raw_run = 0
                k += 1
            # a raw run of 2 followed by nothing is fine; but "raw,raw" then next char
            # can't be a raw dot because the run ended.
            i = j
            continue
        if c in ESCAPABLE:
            out.append('\\' + c)
        else:
            out.append(c)
        i += 1
    s = ''.join(out)
    # safety: no raw "..." may appear (an escaped dot breaks runs: "\." contains a dot
    # preceded by a backslash, so check on the raw-dot level)
    return s


def enc_descr(d, rng=None):
    """Spell a description.  With rng, a backslash followed by blanks / line breaks (a continuation: the parser
    drops the backslash and all white space after it) is inserted now and then, never in front of white space of
    the description itself."""
    if rng is None:
        return '"' + d.replace('\\', '\\\\').replace('"', '\\"') + '"'
    out = ['"']
    for i, c in enumerate(d):
        # (in front of a `#` more often: a comment must not start inside a description)
        if not c.isspace() and rng.random() < (0.5 if c == '#' else 0.06):
            out.append('\\' + rng.choice([' ', '\n', '\t', ' \n   ', '\n\n']))
        out.append({'\\': '\\\\', '"': '\\"'}.get(c, c))
    if rng.random() < 0.05:
        out.append('\\' + rng.choice([' ', '\n']))
    out.append('"')
    return ''.join(out)


def starts_bare_lit(e):
    """Would e, printed as a word item, begin with raw literal characters?"""
    if e[0] == 'lit':
        return True
    if e[0] == 'many':
        return starts_bare_lit(e[1]) if e[1][0] in ('lit',) else False
    return False


class Printer:
    """Pretty-printer with optional random layout.

    layout: None (canonical single spaces) or a random.Random used to draw blanks.
    Records tokens as (kind, payload, offset, line, col, end_offset)."""

    def __init__(self, layout=None, multiline=True, comments=True, enc_rng=None, paren_rng=None):
        self.paren_rng = paren_rng
        self.word_depth = 0
        self.buf = []
        self.pos = 0
        self.line = 1
        self.col = 1
        self.tokens = []
        self.layout = layout
        self.multiline = multiline
        self.comments = comments
        self.enc_rng = enc_rng

    # -- low level
    def emit(self, s):
        self.buf.append(s)
        for ch in s:
            if ch == '\n':
                self.line += 1
                self.col = 1
            else:
                self.col += 1
        self.pos += len(s.encode('utf-8'))

    def tok(self, kind, payload, s):
        start = (self.pos, self.line, self.col)
        self.emit(s)
        self.tokens.append({'kind': kind, 'payload': payload, 'off': start[0],
                            'line': start[1], 'col': start[2], 'end': self.pos,
                            'end_line': self.line, 'end_col': self.col})
        return self.tokens[-1]

    def blank(self, required):
        """Emit blanks where they are legal.  required: at least one blank char."""
        r = self.layout
        if r is None:
            if required:
                self.emit(' ')
            return
        n = r.choice([0, 0, 0, 1, 1, 2, 3]) if not required else r.choice([1, 1, 1, 2, 3])
        if n == 0:
            return
        for i in range(n):
            x = r.random()
            if x < 0.55:
                self.emit(' ')
            elif x < 0.65:
                self.emit('\t')
            elif x < 0.80 and self.multiline:
                self.emit('\n')
            elif x < 0.86:
                self.emit('\x0c' if self.multiline else ' ')
            elif x < 0.95 and self.comments and self.multiline:
                # a comment must be preceded by a blank (a '#' glued to a word is
                # part of that word) and runs to the end of the line
                self.emit(' #' + r.choice(['', ' c', ' a | b ; <X> "q" {{{', '#', ' \\', ' ...']) + '\n')
            else:
                self.emit(' ')

    # -- expressions
    def expr(self, e, parent_prec=-1, in_word=False, next_is_dot=False, force_paren_lit=False):
        k = e[0]
        p = PREC[k]
        if force_paren_lit and k == 'lit':
            t = self.tok('(', e, '(')
            self.blank(False)
            self.expr(e, -1, False)
            self.blank(False)
            self.tok(')', e, ')')
            return t
        need = p <= parent_prec if k in ('fb', 'alt', 'seq', 'word', 'desc') else False
        if k == 'many' and parent_prec >= 4:
            need = True
        if need:
            t = self.tok('(', e, '(')
            self.blank(False)
            self.expr(e, -1, False)
            self.blank(False)
            self.tok(')', e, ')')
            return t
        if k == 'lit':
            t = self.tok('lit', e, enc_lit(e[1], next_is_dot and e[2] is None, self.enc_rng))
            if e[2] is not None:
                self.blank(False)
                self.tok('descr', e, enc_descr(e[2], self.enc_rng))
            return t
        if k == 'nt':
            return self.tok('nt', e, '<' + e[1] + '>')
        if k == 'cmd':
            pad = ' ' if self.layout is None else self.layout.choice(['', ' ', '  ', '\n' if self.multiline else ' '])
            # the command ends at the first "}}}": a body ending in "}" needs a separator
            rpad = pad if not e[1].endswith('}') or pad else ' '
            return self.tok('cmd', e, '{{{' + pad + e[1] + rpad + '}}}')
        if k == 'opt':
            t = self.tok('[', e, '[')
            self.blank(False)
            self.expr(e[1], -1, False)
            self.blank(False)
            self.tok(']', e, ']')
            return t
        if k == 'many':
            # child must be a unary: atom, [..] or parenthesised
            c = e[1]
            glued = self.layout is None or self.layout.random() < 0.7
            t = self.expr(c, 4, in_word, next_is_dot=glued, force_paren_lit=force_paren_lit)
            if not glued:
                self.blank(True)
            self.tok('...', e, '...')
            return t
        if k == 'word':
            first = None
            items = e[1]
            prev_bare = False
            self.word_depth += 1
            for i, c in enumerate(items):
                # inside a word every item is a unary; a literal that would touch the
                # previous literal is parenthesised
                force = prev_bare and starts_bare_lit(c)
                t = self.expr(c, 3, True, force_paren_lit=force)
                prev_bare = (c[0] == 'lit' and c[2] is None and not force)
                if first is None:
                    first = t
            self.word_depth -= 1
            return first
        if k == 'seq':
            first = None
            for i, c in enumerate(e[1]):
                if i:
                    self.blank(True)
                if self.paren_rng is not None and self.word_depth == 0 and self.paren_rng.random() < 0.25:
                    # redundant parentheses around a space-separated item
                    t = self.tok('(', c, '(')
                    self.blank(False)
                    self.expr(c, -1, False)
                    self.blank(False)
                    self.tok(')', c, ')')
                else:
                    t = self.expr(c, 2, False)
                if first is None:
                    first = t
            return first
        if k in ('alt', 'fb'):
            first = None
            for i, c in enumerate(e[1]):
                if i:
                    self.blank(False)
                    self.tok('|' if k == 'alt' else '||', e, '|' if k == 'alt' else '||')
                    self.blank(False)
                t = self.expr(c, p, False)
                if first is None:
                    first = t
            return first
        if k == 'desc':
            # x "d": x is a unary or a word; a word ending in a bare literal is
            # parenthesised, otherwise that literal would take the description
            x = e[1]
            if x[0] == 'word' and x[1][-1][0] == 'lit' and x[1][-1][2] is None:
                t = self.tok('(', x, '(')
                self.blank(False)
                self.expr(x, -1, False)
                self.blank(False)
                self.tok(')', x, ')')
            else:
                assert not (x[0] == 'lit' and x[2] is None), 'desc(bare lit) is lit with descr'
                t = self.expr(x, 2.9, False)
            self.blank(False)
            self.tok('descr', e, enc_descr(e[2], self.enc_rng))
            return t
        raise ValueError(k)

    def statement(self, st, final_semicolon=True, assign='='):
        if st[0] == 'call':
            t = self.tok('cmdname', st, enc_lit(st[1], False, None))
            self.blank(True)
            self.expr(st[2])
        else:
            name = st[1] if st[2] is None else st[1] + '@' + st[2]
            t = self.tok('defname', st, '<' + name + '>')
            self.blank(False if self.layout is not None else True)
            self.tok('=', st, assign)
            self.blank(False if self.layout is not None else True)
            self.expr(st[3])
        self.blank(False)
        if final_semicolon:
            self.tok(';', st, ';')
        return t

    def text(self):
        return ''.join(self.buf)


def print_grammar(stmts, layout=None, multiline=True, comments=True, enc_rng=None,
                  last_semicolon=True, assign=None, paren_rng=None):
    """Returns (text, tokens, stmt_tokens)."""
    p = Printer(layout, multiline, comments, enc_rng, paren_rng)
    stmt_toks = []
    p.blank(False)
    for i, st in enumerate(stmts):
        if i:
            if layout is None:
                p.emit('\n')
            else:
                p.blank(False)
        a = '='
        if assign is not None:
            a = assign
        elif layout is not None and st[0] == 'def':
            a = layout.choice(['=', '=', '::='])
        fin = True
        if i == len(stmts) - 1 and not last_semicolon:
            fin = False
        stmt_toks.append(p.statement(st, fin, a))
    p.blank(False)
    if layout is None:
        p.emit('\n')
    return p.text(), p.tokens, stmt_toks


def print_expr(e):
    p = Printer()
    p.expr(e)
    return p.text()
