"""Check runner: build, fan out jobs to worker processes, merge what the monitors
observed, apply the known-findings file, write evidence, print verdict lines.

Exit codes: 0 held on what was observed (KNOWN-FINDING lines allowed), 1 violation
(VIOLATION property=<id> replay=<path>), 2 inconclusive (INCONCLUSIVE ...)."""
import hashlib
import json
import multiprocessing as mp
import os
import shutil
import subprocess
import sys
import time
import traceback

from . import paths

NWORKERS = int(os.environ.get('VERIF_JOBS', '16'))


class Inconclusive(Exception):
    pass


def h(obj):
    return hashlib.sha1(json.dumps(obj, sort_keys=True, default=str).encode()).hexdigest()[:16]


# ---------------------------------------------------------------------------
# builds

def run_build(cmd, cwd, env_extra=None, label=''):
    env = dict(os.environ)
    env['CARGO_NET_OFFLINE'] = 'true'
    if env_extra:
        env.update(env_extra)
    p = subprocess.run(cmd, cwd=cwd, env=env, stdout=subprocess.PIPE, stderr=subprocess.STDOUT)
    if p.returncode != 0:
        sys.stdout.write(p.stdout.decode('utf-8', 'replace')[-4000:])
        raise Inconclusive('build failed: %s' % label)


def build(chk=False, quiet=True):
    """Build complgen (feature verif) and cgprobe from /repo's current working tree."""
    os.makedirs(paths.BUILD, exist_ok=True)
    t0 = time.time()
    rel = os.path.join(paths.BUILD, 'rel')
    run_build(['cargo', 'build', '--release', '--offline', '--features', 'verif'],
              paths.REPO, {'CARGO_TARGET_DIR': rel}, 'complgen (verif)')
    lock_src = os.path.join(paths.REPO, 'Cargo.lock')
    lock_dst = os.path.join(paths.VERIF, 'probe', 'Cargo.lock')
    try:
        shutil.copyfile(lock_src, lock_dst)
    except OSError:
        pass
    run_build(['cargo', 'build', '--release', '--offline'],
              os.path.join(paths.VERIF, 'probe'), {'CARGO_TARGET_DIR': rel}, 'cgprobe')
    if chk:
        run_build(['cargo', 'build', '--release', '--offline'],
                  paths.REPO, {'CARGO_TARGET_DIR': os.path.join(paths.BUILD, 'chk'),
                               'CARGO_PROFILE_RELEASE_DEBUG_ASSERTIONS': 'true',
                               'CARGO_PROFILE_RELEASE_OVERFLOW_CHECKS': 'true'},
                  'complgen (debug-assertions, overflow-checks)')
    return time.time() - t0


# ---------------------------------------------------------------------------
# known findings

def load_known():
    try:
        with open(paths.KNOWN) as f:
            return json.load(f)
    except FileNotFoundError:
        return {'findings': [], 'fixed': []}


def kf_match(entry, witness):
    """An open entry matches a witness when every key of entry['match'] equals the
    witness's value for that key (witnesses carry a precise 'sig' computed by the check)."""
    if entry.get('status') != 'open':
        return False
    m = entry.get('match', {})
    if not m:
        return False
    for k, v in m.items():
        if witness.get(k) != v:
            return False
    return True


# ---------------------------------------------------------------------------
# result merging

class Acc:
    """What a job (or the whole run) observed."""

    def __init__(self):
        self.evals = 0
        self.nontrivial = set()
        self.violations = []
        self.inconclusive = []
        self.samples = []
        self.counters = {}

    def count(self, key, n=1):
        self.counters[key] = self.counters.get(key, 0) + n

    def seen(self, obj):
        """Register a distinct non-trivial case (by content hash)."""
        self.nontrivial.add(h(obj))

    def sample(self, obj, cap=3):
        if len(self.samples) < cap:
            self.samples.append(obj)

    def violation(self, witness):
        # capped per signature, never globally: many witnesses of one (possibly known) kind must not crowd out
        # a witness of another kind
        sig = str(witness.get('sig'))
        n = sum(1 for v in self.violations if str(v.get('sig')) == sig)
        if n < 8:
            self.violations.append(witness)
        self.count('violations_raw')

    def dump(self):
        return {'evals': self.evals, 'nontrivial': sorted(self.nontrivial),
                'violations': self.violations, 'inconclusive': self.inconclusive,
                'samples': self.samples, 'counters': self.counters}


def merge(total, part):
    total.evals += part['evals']
    total.nontrivial.update(part['nontrivial'])
    per_sig = getattr(total, '_per_sig', None)
    if per_sig is None:
        per_sig = total._per_sig = {}
    for v in part['violations']:
        sig = str(v.get('sig'))
        if per_sig.get(sig, 0) < 40:
            per_sig[sig] = per_sig.get(sig, 0) + 1
            total.violations.append(v)
    total.inconclusive.extend(part['inconclusive'][:20])
    for s in part['samples']:
        if len(total.samples) < 6:
            total.samples.append(s)
    for k, v in part['counters'].items():
        if isinstance(v, (int, float)):
            total.counters[k] = total.counters.get(k, 0) + v
        else:
            total.counters.setdefault(k, v)


def _job_entry(args):
    mod_name, job = args
    try:
        mod = __import__('cgv.checks.' + mod_name, fromlist=['x'])
        acc = Acc()
        mod.run_job(job, acc)
        return acc.dump()
    except Exception as e:  # harness error: never a violation
        acc = Acc()
        acc.inconclusive.append('job %r raised %s: %s' % (job, type(e).__name__, traceback.format_exc()[-1500:]))
        return acc.dump()


def run_check(mod_name, tier, seed, replay=None):
    mod = __import__('cgv.checks.' + mod_name, fromlist=['x'])
    pid = mod.PROPERTY
    t0 = time.time()
    try:
        build(chk=getattr(mod, 'NEEDS_CHK_BUILD', False))
    except Inconclusive as e:
        print('INCONCLUSIVE property=%s %s' % (pid, e))
        return 2
    build_s = time.time() - t0

    if replay is not None:
        with open(replay) as f:
            w = json.load(f)
        acc = Acc()
        mod.replay(w, acc)
        for v in acc.violations:
            print('REPLAY violation reproduced: %s' % json.dumps(v, default=str)[:3000])
        if not acc.violations:
            print('REPLAY: no violation on the current tree')
        return 1 if acc.violations else 0

    jobs = mod.make_jobs(tier, seed)
    total = Acc()
    if hasattr(mod, 'pre_run'):
        mod.pre_run(tier, seed, total)
    nw = min(getattr(mod, 'WORKERS', NWORKERS), NWORKERS, max(1, len(jobs)))
    if nw > 1:
        ctx = mp.get_context('fork')
        with ctx.Pool(nw) as pool:
            for part in pool.imap_unordered(_job_entry, [(mod_name, j) for j in jobs], chunksize=1):
                merge(total, part)
    else:
        for j in jobs:
            merge(total, _job_entry((mod_name, j)))
    if hasattr(mod, 'post_run'):
        mod.post_run(tier, seed, total)

    known = load_known()
    open_entries = [e for e in known.get('findings', []) if e.get('property') == pid and e.get('status') == 'open']
    new_violations = []
    known_hits = {}
    for v in total.violations:
        hit = None
        for e in open_entries:
            if kf_match(e, v):
                hit = e
                break
        if hit is not None:
            known_hits.setdefault(hit['id'], [hit, 0])[1] += 1
        else:
            new_violations.append(v)

    wall = time.time() - t0
    min_evals = getattr(mod, 'MIN_EVALS', {}).get(tier, 1)
    rc = 0
    for kid, (e, n) in sorted(known_hits.items()):
        print('KNOWN-FINDING: property=%s %s [%s, %d witnesses this run]' % (pid, e['what'], kid, n))
    replay_paths = []
    if new_violations:
        os.makedirs(os.path.join(paths.REPLAYS, pid), exist_ok=True)
        seen_sigs = set()
        for v in new_violations:
            sig = v.get('sig', h(v))
            if sig in seen_sigs and len(replay_paths) >= 3:
                continue
            seen_sigs.add(sig)
            if len(replay_paths) >= 10:
                break
            v = dict(v)
            v['check'] = mod_name
            v['property'] = pid
            path = os.path.join(paths.REPLAYS, pid, h(v) + '.json')
            with open(path, 'w') as f:
                json.dump(v, f, indent=1, default=str)
            replay_paths.append(path)
            print('VIOLATION property=%s replay=%s' % (pid, path))
            print('  ' + summarize(v))
        rc = 1
    elif total.inconclusive and total.evals < min_evals:
        rc = 2
    elif len(total.inconclusive) > max(3, total.evals // 100):
        # the monitors could not judge a noticeable share of the executions (reader did not understand the script,
        # sessions timed out): neither held nor violated
        total.inconclusive.insert(0, '%d cases could not be judged (of %d evaluations)'
                                  % (len(total.inconclusive), total.evals))
        rc = 2
    elif total.evals < min_evals or len(total.nontrivial) < 2:
        total.inconclusive.append('observed too little: %d evaluations, %d distinct non-trivial (minimum %d)'
                                  % (total.evals, len(total.nontrivial), min_evals))
        rc = 2

    write_evidence(mod, pid, tier, seed, total, wall, build_s, len(new_violations), known_hits)
    if rc == 2:
        for msg in total.inconclusive[:5]:
            print('INCONCLUSIVE property=%s %s' % (pid, msg[:1500]))
    elif total.inconclusive:
        print('note: %d inconclusive cases (not counted either way); first: %s'
              % (len(total.inconclusive), total.inconclusive[0][:300]))
    print('%s %s tier=%s seed=%d evaluations=%d distinct_nontrivial=%d known_findings=%d wall=%.1fs'
          % (pid, {0: 'HELD', 1: 'VIOLATED', 2: 'INCONCLUSIVE'}[rc], tier, seed, total.evals,
             len(total.nontrivial), sum(n for _, n in known_hits.values()), wall))
    return rc


def summarize(v):
    keys = ['sig', 'what', 'shell', 'grammar', 'query', 'expected', 'observed', 'witness']
    parts = []
    for k in keys:
        if k in v:
            s = v[k] if isinstance(v[k], str) else json.dumps(v[k], default=str)
            parts.append('%s=%s' % (k, s[:400].replace('\n', '\\n')))
    return ' '.join(parts)[:2500]


def write_evidence(mod, pid, tier, seed, total, wall, build_s, nviol, known_hits):
    os.makedirs(paths.EVIDENCE, exist_ok=True)
    level = mod.LEVEL
    cov = {
        'evaluations': total.evals,
        'distinct_nontrivial': len(total.nontrivial),
        'rule': mod.RULE,
        'samples': total.samples[:6] if total.samples else [],
        'counters': {k: total.counters[k] for k in sorted(total.counters)},
        'inconclusive_cases': len(total.inconclusive),
        'known_finding_witnesses': {k: n for k, (e, n) in known_hits.items()},
        'build_s': round(build_s, 1),
    }
    if level == 'translation_validation':
        cov['programs'] = total.counters.get('programs', total.evals)
        cov['disagreements_checked'] = total.counters.get('disagreements_checked', 0)
    if getattr(mod, 'EXHAUSTIVE', {}).get(tier):
        cov['exhaustive'] = True
    ev = {
        'property_id': pid,
        'tier': tier,
        'seed': seed,
        'level': level,
        'coverage': cov,
        'assumptions': list(getattr(mod, 'ASSUMPTIONS', [])),
        'wall_s': round(wall, 2),
        'violations': nviol,
    }
    path = os.path.join(paths.EVIDENCE, pid + '.json')
    tmp = path + '.tmp'
    with open(tmp, 'w') as f:
        json.dump(ev, f, indent=1, default=str)
    os.replace(tmp, path)


def main(argv):
    if len(argv) >= 2 and argv[1] == 'setup':
        try:
            build(chk=True)
        except Inconclusive as e:
            print('setup failed: %s' % e)
            return 1
        print('setup ok')
        return 0
    if len(argv) >= 3 and argv[1] == 'check':
        pid = argv[2].upper()
        tier = os.environ.get('VERIF_TIER', 'quick')
        replay = None
        i = 3
        while i < len(argv):
            if argv[i] == '--tier':
                tier = argv[i + 1]
                i += 2
            elif argv[i] == '--replay':
                replay = argv[i + 1]
                i += 2
            else:
                i += 1
        if tier not in ('quick', 'thorough'):
            tier = 'quick'
        try:
            seed = int(os.environ.get('VERIF_SEED', '0'))
        except ValueError:
            seed = 0
        return run_check(pid.lower(), tier, seed, replay)
    if len(argv) >= 3 and argv[1] == 'replay':
        with open(argv[2]) as f:
            w = json.load(f)
        return run_check(w['check'], 'quick', 0, argv[2])
    print('usage: vf setup | vf check <ID> [--tier quick|thorough] [--replay path] | vf replay <path>')
    return 64
