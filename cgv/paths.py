import os

VERIF = os.path.dirname(os.path.dirname(os.path.abspath(__file__)))
REPO = os.environ.get('VERIF_REPO', '/repo')
BUILD = os.path.join(VERIF, 'build')
REL = os.path.join(BUILD, 'rel', 'release')
CHK = os.path.join(BUILD, 'chk', 'release')
PROBE = os.path.join(REL, 'cgprobe')
COMPLGEN = os.path.join(REL, 'complgen')
COMPLGEN_CHK = os.path.join(CHK, 'complgen')
WORK = os.path.join(VERIF, 'work')
EVIDENCE = os.environ.get('VERIF_EVIDENCE_DIR') or os.path.join(VERIF, 'evidence')
REPLAYS = os.path.join(VERIF, 'replays')
KNOWN = os.path.join(VERIF, 'known_findings.json')
